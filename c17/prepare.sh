# sourced by ./check for C17: the command of the current tree, built unmodified,
# for the configuration-file runs (cmd/gomacro.go Config.run is one of the anchors)
(cd "$SCR/repo" && go build -trimpath -o "$SCR/bin/gomacro" ./cmd) >"$SCR/build.log" 2>&1 || {
	cat "$SCR/build.log" >&2; fail "build of cmd/gomacro.go of the current tree failed"; }
