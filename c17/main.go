// C17 - source loading maps every file to its package and a real common root.
//
// The simulator owns the environment of analysis.LoadSources: a module tree on
// a scratch file system (directory names drawn to collide on prefixes), the
// process's working directory, the spelling of every argument, and one
// injected environment fault per faulty run. The real LoadSources (real os,
// filepath, go/packages and `go list`) runs against it.
package main

import (
	"encoding/json"
	"fmt"
	"os"
	"os/exec"
	"path/filepath"
	"sort"
	"strings"

	"github.com/benoitkugler/gomacro/analysis"

	"verif/kernel"
)

type pkgSpec struct {
	Dir     string   `json:"dir"` // relative to the module root, "" = root
	Name    string   `json:"name"`
	Files   []string `json:"files"`
	Imports []int    `json:"imports,omitempty"` // indices of earlier packages
}

type fileArg struct {
	Pkg      int    `json:"pkg"`
	File     int    `json:"file"`
	Spelling string `json:"spelling"` // abs | rel | dotrel | updown
}

type params struct {
	Module string    `json:"module"`
	Outer  string    `json:"outer"` // directories between the scratch root and the module root
	Pkgs   []pkgSpec `json:"pkgs"`
	Args   []fileArg `json:"args"`
	Cwd    string    `json:"cwd"`   // modroot | pkg:<i> | other | fsroot | parent
	Fault  string    `json:"fault"` // "" or a fault kind
	FaultA int       `json:"fault_arg"`
	// Second: after a successful fault-free load the tree is damaged in this
	// way and the very same arguments are loaded again in the same process:
	// the second load must see the new state of the file system
	Second string `json:"second_act,omitempty"`
	// Noise: legal bystanders placed in every package directory; none of them
	// belongs to the packages being loaded on this platform
	Noise []string `json:"noise,omitempty"`
	// Repair: after an injected fault was reported the damage is removed and the
	// same arguments are loaded again in the same process: the load must succeed
	Repair bool `json:"repair,omitempty"`
	// Again: the faulty tree is loaded a second time before any repair: the
	// fault must be reported every time, not only the first
	Again bool `json:"load_again,omitempty"`
	// Goflags is the caller's GOFLAGS during the load: "default" keeps the
	// harness' own (-mod=mod), "unset" removes it, "tags" is -tags=verifx: then
	// package 0 has one more file guarded by //go:build verifx, which belongs to
	// the package under these flags (and may be among the arguments)
	Goflags string `json:"goflags,omitempty"`
	// Gowork puts a go.work file using the module above it (never together
	// with -mod=mod, which the go command refuses in workspace mode)
	Gowork bool `json:"gowork,omitempty"`
	// Symlink: "outer" = the whole tree is reached through a symbolic link to
	// its real location and every path is spelled through the link; "file" = one
	// requested file is a symbolic link to a file kept in <module>/_shared
	Symlink string `json:"symlink,omitempty"`
	// Cgo: package 0 has one more file that imports "C" (file index -2 in the
	// arguments); skipped when cgo is not usable on the machine
	Cgo bool `json:"cgo,omitempty"`
	// Line: files carry a //line directive before their package clause, as
	// generated files do: "plain" names a grammar file that does not exist,
	// "cross" makes the first file of package 0 claim the path of a file of the
	// last package. Directives change reported positions, not which file is which
	Line string `json:"line_directives,omitempty"`
	// Config: this run goes through `gomacro -config` instead (see config.go);
	// nothing else of the parameters is used then
	Config *cfgParams `json:"config,omitempty"`
}

var cgoState int // 0 unknown, 1 usable, 2 not

func cgoUsable() bool {
	if cgoState == 0 {
		cgoState = 2
		out, err := exec.Command("go", "env", "CC").Output()
		if f := strings.Fields(string(out)); err == nil && len(f) >= 1 {
			if _, lerr := exec.LookPath(f[0]); lerr == nil {
				cgoState = 1
			}
		}
	}
	return cgoState == 1
}

var noiseKinds = []string{"broken_sibling_package", "ext_test", "in_test", "ignore_main", "os_variant", "underscore_garbage", "dot_garbage", "testdata_garbage", "nested_module", "hidden_dir"}

// faults that are one extra file zz_*.go and can be repaired by removing it
var repairable = map[string]bool{"type_error_root": true, "type_error_import": true, "type_error_import_body": true, "unused_import_root": true,
	"unused_import_dep": true, "syntax_error_root": true, "import_of_missing_package": true, "empty_go_file": true}

type c17 struct{}

func (c17) ID() string { return "C17" }

func (c17) Runs(env *kernel.Env) int {
	if env.Tier == "thorough" {
		return 0
	}
	return 256
}

var dirNames = [][]string{
	{"pa1", "pa2"}, {"inner", "inner2"}, {"a", "ab"}, {"a", "a/b", "ab"}, {"model", "models"}, {"x", "y"},
	{"api", "api/v1", "api/v10"}, {"srv", "srv/internal/db", "srv2"}, {"p", "pq", "pqr"}, {"data", "data_test"},
	{"models", "Models"}, {"api", "API", "Api"}, {"api/v1", "apiclient", "api"},
	// a directory, a package nested in it, and a sibling whose name continues
	// with a byte that sorts before the path separator
	{"api", "api/internal/conv", "api-v2"}, {"pkg", "pkg/sub", "pkg.old"}, {"a", "a/b", "a-b", "a.b"}, {"srv", "srv/db", "srv-db", "srv2"},
}

var faults = []string{"missing", "not_go", "type_error_root", "type_error_import", "type_error_import", "type_error_import_body", "type_error_import_body", "unused_import_root", "unused_import_dep", "dir_for_file", "dangling_symlink", "go_unavailable", "empty_go_file",
	"syntax_error_root", "import_of_missing_package", "no_go_mod"}

// faults after which the property does not promise an error (only: no crash)
var onlyNoPanic = map[string]bool{"no_go_mod": true}

func (c17) Generate(env *kernel.Env, r *kernel.Rand, index int) any {
	var p params
	if index%5 == 4 {
		p.Config = generateConfig(r)
		return p
	}
	segs := r.Range(1, 4)
	parts := []string{"example.com"}
	for i := 1; i < segs; i++ {
		parts = append(parts, kernel.Pick(r, []string{"org", "team", "lib", "x"}))
	}
	p.Module = strings.Join(parts, "/")
	p.Outer = kernel.Pick(r, []string{"", "w", "work dir", "go/src", "a-b/c.d", "dépôt", "données/src", "日本"})
	// directories: one or two colliding families, sometimes the module root itself
	var dirs []string
	seen := map[string]bool{}
	add := func(d string) {
		if !seen[d] {
			seen[d] = true
			dirs = append(dirs, d)
		}
	}
	if r.Chance(1, 3) {
		add("")
	}
	fam := kernel.Pick(r, dirNames)
	for _, d := range fam {
		if r.Chance(4, 5) {
			add(d)
		}
	}
	if r.Chance(1, 2) {
		prefix := kernel.Pick(r, []string{"", "sub/", "deep/er/"})
		for _, d := range kernel.Pick(r, dirNames) {
			if r.Chance(2, 3) {
				add(prefix + d)
			}
		}
	}
	if len(dirs) == 0 {
		add(fam[0])
	}
	if len(dirs) > 6 {
		dirs = dirs[:6]
	}
	sameNames := r.Chance(1, 3) // every package uses the same file names
	for i, d := range dirs {
		name := "root"
		if d != "" {
			name = strings.NewReplacer("_test", "t", "-", "", ".", "").Replace(filepath.Base(d))
		}
		ps := pkgSpec{Dir: d, Name: name}
		nf := r.Range(1, 3)
		for j := 0; j < nf; j++ {
			prefix := kernel.Pick(r, []string{"f", "types", "x", "defs"})
			if sameNames {
				prefix = "types"
			}
			ps.Files = append(ps.Files, fmt.Sprintf("%s%d.go", prefix, j))
		}
		for j := 0; j < i; j++ {
			caseTwin := false
			for k2, d2 := range dirs {
				if k2 != j && strings.EqualFold(d2, dirs[j]) {
					caseTwin = true // (Go refuses two imports that differ only by case in one build)
				}
			}
			if r.Chance(1, 2) && !strings.Contains(dirs[j], "internal") && !caseTwin {
				// (Go's internal rule would make the import illegal)
				ps.Imports = append(ps.Imports, j)
			}
		}
		p.Pkgs = append(p.Pkgs, ps)
	}
	// arguments
	na := r.Range(1, 5)
	if r.Chance(1, 8) {
		na = r.Range(6, 10) // long lists
	}
	if r.Chance(1, 40) {
		na = 0 // the empty set: nothing to load, but still no crash
	}
	// bias: files from two different colliding directories
	for i := 0; i < na; i++ {
		pi := r.Intn(len(p.Pkgs))
		a := fileArg{Pkg: pi, File: r.Intn(len(p.Pkgs[pi].Files))}
		a.Spelling = kernel.Pick(r, []string{"abs", "abs", "rel", "dotrel", "updown", "absupdown", "absdot", "absdslash"})
		p.Args = append(p.Args, a)
	}
	if r.Chance(1, 5) && len(p.Args) > 1 {
		p.Args[len(p.Args)-1] = p.Args[0] // duplicate
	}
	if na == 0 {
		return p
	}
	switch r.Intn(6) {
	case 0, 1:
		p.Cwd = "modroot"
	case 2:
		p.Cwd = fmt.Sprintf("pkg:%d", r.Intn(len(p.Pkgs)))
	case 3:
		p.Cwd = "other"
	case 4:
		p.Cwd = "parent"
	default:
		p.Cwd = "fsroot"
	}
	if r.Chance(1, 3) {
		for _, k := range noiseKinds {
			if r.Chance(1, 3) {
				p.Noise = append(p.Noise, k)
			}
		}
	}
	if r.Chance(1, 3) {
		p.Fault = kernel.Pick(r, faults)
		p.FaultA = r.Intn(64)
		p.Repair = r.Chance(1, 2)
		p.Again = r.Chance(1, 2)
	} else if r.Chance(1, 3) {
		p.Second = kernel.Pick(r, []string{"type_error_root", "syntax_error_root", "missing", "type_error_import", "same_size_rewrite"})
		p.FaultA = r.Intn(64)
	}
	if r.Chance(1, 6) {
		p.Symlink = kernel.Pick(r, []string{"outer", "file"})
	}
	if r.Chance(1, 16) {
		p.Cgo = true
		if r.Chance(2, 3) {
			p.Args = append(p.Args, fileArg{Pkg: 0, File: -2, Spelling: kernel.Pick(r, []string{"abs", "rel"})})
		}
	}
	switch r.Intn(6) {
	case 0:
		p.Goflags = "unset"
		p.Gowork = r.Chance(1, 2)
	case 1:
		p.Goflags = "tags"
		p.Gowork = r.Chance(1, 3)
		if r.Chance(1, 2) {
			// the tagged file is itself requested
			p.Args = append(p.Args, fileArg{Pkg: 0, File: -1, Spelling: kernel.Pick(r, []string{"abs", "rel"})})
		}
	}
	if r.Chance(1, 5) {
		p.Line = kernel.Pick(r, []string{"plain", "cross"})
	}
	return p
}

var realStderr = os.Stderr
var runCounter int

func quiet() {
	if os.Stderr == realStderr {
		if f, err := os.OpenFile(os.DevNull, os.O_WRONLY, 0); err == nil {
			os.Stderr = f
			os.Stdout = f
		}
	}
}

func isAncestor(root, file string) bool {
	root = filepath.Clean(root)
	file = filepath.Clean(file)
	if root == string(filepath.Separator) {
		return true
	}
	return strings.HasPrefix(file, root+string(filepath.Separator))
}

func (c17) Execute(env *kernel.Env, raw json.RawMessage, ch *kernel.Choices) *kernel.Outcome {
	var p params
	if err := json.Unmarshal(raw, &p); err != nil {
		kernel.Harnessf("params: %v", err)
	}
	quiet()
	out := &kernel.Outcome{}
	if p.Config != nil {
		executeConfig(env, p.Config, out)
		return out
	}
	// the build-tagged file of package 0 (file index -1 in the arguments)
	{
		tagged := -1
		if p.Goflags == "tags" && len(p.Pkgs) > 0 {
			p.Pkgs[0].Files = append(append([]string(nil), p.Pkgs[0].Files...), "zt_tagged.go")
			tagged = len(p.Pkgs[0].Files) - 1
		}
		cgo := -1
		if p.Cgo && len(p.Pkgs) > 0 {
			if cgoUsable() {
				p.Pkgs[0].Files = append(append([]string(nil), p.Pkgs[0].Files...), "zc_cgo.go")
				cgo = len(p.Pkgs[0].Files) - 1
				out.Fault("env_cgo_file_in_package")
				// (the harness itself is built with CGO_ENABLED=0)
				oldCgo, hadCgo := os.LookupEnv("CGO_ENABLED")
				os.Setenv("CGO_ENABLED", "1")
				defer func() {
					if hadCgo {
						os.Setenv("CGO_ENABLED", oldCgo)
					} else {
						os.Unsetenv("CGO_ENABLED")
					}
				}()
			} else {
				out.Probe("cgo_unusable:skipped")
			}
		}
		var args []fileArg
		for _, a := range p.Args {
			if a.File == -1 {
				if tagged < 0 || a.Pkg != 0 {
					continue
				}
				a.File = tagged
			}
			if a.File == -2 {
				if cgo < 0 || a.Pkg != 0 {
					continue
				}
				a.File = cgo
			}
			args = append(args, a)
		}
		p.Args = args
	}
	runCounter++
	base := filepath.Join(env.Scratch, fmt.Sprintf("c17-%d-%d", os.Getpid(), runCounter))
	defer os.RemoveAll(base)
	treeBase := base
	if p.Symlink == "outer" {
		// the real tree lives in <base>/real, everything is spelled through <base>/via
		if err := os.MkdirAll(filepath.Join(base, "real"), 0o755); err != nil {
			kernel.Harnessf("environment setup: %v", err)
		}
		if err := os.Symlink(filepath.Join(base, "real"), filepath.Join(base, "via")); err != nil {
			kernel.Harnessf("environment setup: %v", err)
		}
		treeBase = filepath.Join(base, "via")
		out.Fault("env_tree_behind_symlink")
	}
	modRoot := filepath.Join(treeBase, filepath.FromSlash(p.Outer), "mod")
	must := func(err error) {
		if err != nil {
			kernel.Harnessf("environment setup: %v", err)
		}
	}
	must(os.MkdirAll(modRoot, 0o755))
	must(os.MkdirAll(filepath.Join(base, "elsewhere"), 0o755))
	must(os.WriteFile(filepath.Join(modRoot, "go.mod"), []byte("module "+p.Module+"\n\ngo 1.23\n"), 0o644))
	if p.Gowork && p.Goflags != "" && p.Goflags != "default" {
		must(os.WriteFile(filepath.Join(filepath.Dir(modRoot), "go.work"), []byte("go 1.23\n\nuse ./mod\n"), 0o644))
		out.Fault("env_go_work_above_module")
	}
	importPath := func(i int) string {
		if p.Pkgs[i].Dir == "" {
			return p.Module
		}
		return p.Module + "/" + p.Pkgs[i].Dir
	}
	if p.Line != "" {
		out.Fault("env_line_directives_" + p.Line)
	}
	for i, ps := range p.Pkgs {
		dir := filepath.Join(modRoot, filepath.FromSlash(ps.Dir))
		must(os.MkdirAll(dir, 0o755))
		for j, f := range ps.Files {
			var b strings.Builder
			if f == "zt_tagged.go" {
				b.WriteString("//go:build verifx\n\n")
			}
			switch {
			case p.Line == "plain" && (i+j)%2 == 0:
				fmt.Fprintf(&b, "//line grammar_%d_%d.y:1\n", i, j)
			case p.Line == "cross" && i == 0 && j == 0 && len(p.Pkgs) > 1:
				last := p.Pkgs[len(p.Pkgs)-1]
				fmt.Fprintf(&b, "//line %s:1\n", filepath.Join(modRoot, filepath.FromSlash(last.Dir), last.Files[0]))
			}
			fmt.Fprintf(&b, "package %s\n\n", ps.Name)
			if f == "zc_cgo.go" {
				b.WriteString("// #include <stdlib.h>\nimport \"C\"\n\nfunc cSize() int { return int(C.sizeof_int) }\n\n")
			}
			if j == 0 && len(ps.Imports) > 0 {
				b.WriteString("import (\n")
				for k, imp := range ps.Imports {
					fmt.Fprintf(&b, "\tdep%d %q\n", k, importPath(imp))
				}
				b.WriteString(")\n\n")
				for k, imp := range ps.Imports {
					fmt.Fprintf(&b, "type Use%d_%d struct{ V dep%d.T%d_0 }\n\n", i, k, k, imp)
				}
			}
			fmt.Fprintf(&b, "type T%d_%d struct{ A int }\n", i, j)
			must(os.WriteFile(filepath.Join(dir, f), []byte(b.String()), 0o644))
		}
	}
	for _, kind := range p.Noise {
		for i, ps := range p.Pkgs {
			dir := filepath.Join(modRoot, filepath.FromSlash(ps.Dir))
			w := func(rel, content string) {
				f := filepath.Join(dir, filepath.FromSlash(rel))
				must(os.MkdirAll(filepath.Dir(f), 0o755))
				must(os.WriteFile(f, []byte(content), 0o644))
			}
			switch kind {
			case "ext_test":
				w("zn_ext_test.go", fmt.Sprintf("package %s_test\n\nimport \"testing\"\n\nfunc TestNoise(t *testing.T) {}\n", ps.Name))
			case "in_test":
				w("zn_in_test.go", fmt.Sprintf("package %s\n\nimport \"testing\"\n\nfunc TestNoiseIn(t *testing.T) { _ = T%d_0{} }\n", ps.Name, i))
			case "ignore_main":
				w("zn_gen.go", "//go:build ignore\n\npackage main\n\nfunc main() {}\n")
			case "os_variant":
				// the platform variant of a declaration: excluded on this platform
				w("zn_types_windows.go", fmt.Sprintf("package %s\n\ntype T%d_0 struct{ A string }\n", ps.Name, i))
				w("zn_tagged.go", fmt.Sprintf("//go:build plan9 && never\n\npackage %s\n\ntype T%d_0 struct{ B bool }\n", ps.Name, i))
			case "underscore_garbage":
				w("_draft.go", "this is not go\n")
			case "dot_garbage":
				w(".#types0.go", "editor lock file, not go\n")
			case "testdata_garbage":
				w("testdata/broken.go", "package broken\n\nvar x int = \"s\"\n")
			case "nested_module":
				w("zn_tool/go.mod", "module example.org/other/tool\n\ngo 1.23\n")
				w("zn_tool/main.go", "package main\n\nvar broken int = \"s\"\n")
			case "broken_sibling_package":
				// an unrelated package of the module, below the package directory, with a type error
				w("zn_sibling/broken.go", "package zn_sibling\n\nvar Broken int = \"not an int\"\n")
			case "hidden_dir":
				w("_old/old.go", "package old\n\nfunc broken( {\n")
				w(".cache/c.go", "garbage\n")
			}
		}
		out.Fault("noise_" + kind)
	}
	// working directory
	cwd := modRoot
	if p.Symlink == "outer" && p.Cwd != "fsroot" {
		// inside a tree reached through a link the kernel reports the physical
		// working directory, so relative arguments would name the real location
		// and absolute ones the link: the run stays outside the linked tree
		p.Cwd = "other"
	}
	switch {
	case p.Cwd == "other":
		cwd = filepath.Join(base, "elsewhere")
	case p.Cwd == "fsroot":
		cwd = string(filepath.Separator)
	case p.Cwd == "parent":
		cwd = filepath.Dir(modRoot)
	case strings.HasPrefix(p.Cwd, "pkg:"):
		var i int
		fmt.Sscanf(p.Cwd, "pkg:%d", &i)
		if i < len(p.Pkgs) {
			cwd = filepath.Join(modRoot, filepath.FromSlash(p.Pkgs[i].Dir))
		}
	}
	// arguments as spelled
	var absFiles, args []string
	for _, a := range p.Args {
		if a.Pkg >= len(p.Pkgs) || a.File >= len(p.Pkgs[a.Pkg].Files) {
			continue // shrunk away
		}
		abs := filepath.Join(modRoot, filepath.FromSlash(p.Pkgs[a.Pkg].Dir), p.Pkgs[a.Pkg].Files[a.File])
		spelled := abs
		rel, err := filepath.Rel(cwd, abs)
		if err == nil {
			switch a.Spelling {
			case "rel":
				spelled = rel
			case "dotrel":
				if !strings.HasPrefix(rel, "..") {
					spelled = "." + string(filepath.Separator) + rel
				} else {
					spelled = rel
				}
			case "updown":
				spelled = filepath.Dir(rel) + string(filepath.Separator) + ".." + string(filepath.Separator) + filepath.Base(filepath.Dir(abs)) + string(filepath.Separator) + filepath.Base(abs)
				if filepath.Dir(abs) == string(filepath.Separator) {
					spelled = rel
				}
			}
		}
		// absolute but not canonical spellings: still the same existing file
		sep := string(filepath.Separator)
		switch a.Spelling {
		case "absupdown":
			if d := filepath.Dir(abs); d != sep && filepath.Dir(d) != sep {
				spelled = d + sep + ".." + sep + filepath.Base(d) + sep + filepath.Base(abs)
			}
		case "absdot":
			spelled = filepath.Dir(abs) + sep + "." + sep + filepath.Base(abs)
		case "absdslash":
			spelled = filepath.Dir(abs) + sep + sep + filepath.Base(abs)
		}
		absFiles = append(absFiles, abs)
		args = append(args, spelled)
	}
	emptySet := len(p.Args) == 0
	if len(args) == 0 && !emptySet {
		return out // shrunk away
	}
	if p.Symlink == "file" && len(absFiles) > 0 {
		// one requested file becomes a symbolic link to a file kept elsewhere in
		// the module: for the go command it is a file of the package all the same
		target := absFiles[p.FaultA%len(absFiles)]
		if st, err := os.Lstat(target); err == nil && st.Mode().IsRegular() {
			shared := filepath.Join(modRoot, "_shared")
			must(os.MkdirAll(shared, 0o755))
			kept := filepath.Join(shared, fmt.Sprintf("k%d_%s", p.FaultA%len(absFiles), filepath.Base(target)))
			must(os.Rename(target, kept))
			must(os.Symlink(kept, target))
			out.Fault("env_requested_file_is_a_symlink")
		}
	}
	pkgOfArg := func(k int) int {
		n := -1
		for _, a := range p.Args {
			if a.Pkg >= len(p.Pkgs) || a.File >= len(p.Pkgs[a.Pkg].Files) {
				continue
			}
			n++
			if n == k {
				return a.Pkg
			}
		}
		return -1
	}

	// fault injection into the environment
	fault := p.Fault
	savedPath := os.Getenv("PATH")
	if emptySet {
		fault = ""
	}
	if fault != "" {
		k := p.FaultA % len(args)
		if strings.HasPrefix(fault, "type_error_import") || fault == "unused_import_dep" {
			// choose an argument whose package imports another one, preferably
			// one whose dependency is not itself among the arguments
			best := -1
			for off := 0; off < len(args); off++ {
				kk := (k + off) % len(args)
				pk := pkgOfArg(kk)
				if pk < 0 || len(p.Pkgs[pk].Imports) == 0 {
					continue
				}
				if best < 0 {
					best = kk
				}
				depListed := false
				for j := range args {
					if pkgOfArg(j) == p.Pkgs[pk].Imports[0] {
						depListed = true
					}
				}
				if !depListed {
					best = kk
					break
				}
			}
			if best >= 0 {
				k = best
			}
		}
		target := absFiles[k]
		tpkg := pkgOfArg(k)
		switch fault {
		case "missing":
			must(os.Remove(target))
			// every argument naming that file is now missing; fine
		case "not_go":
			txt := filepath.Join(filepath.Dir(target), "notes.txt")
			must(os.WriteFile(txt, []byte("not go\n"), 0o644))
			args[k] = txt
			absFiles[k] = txt
		case "type_error_root":
			must(os.WriteFile(filepath.Join(filepath.Dir(target), "zz_broken.go"), []byte(fmt.Sprintf("package %s\n\nvar broken int = \"not an int\"\n", p.Pkgs[tpkg].Name)), 0o644))
		case "type_error_import":
			if len(p.Pkgs[tpkg].Imports) == 0 {
				fault = ""
				break
			}
			dep := p.Pkgs[tpkg].Imports[0]
			must(os.WriteFile(filepath.Join(modRoot, filepath.FromSlash(p.Pkgs[dep].Dir), "zz_broken.go"), []byte(fmt.Sprintf("package %s\n\nvar broken int = \"not an int\"\n", p.Pkgs[dep].Name)), 0o644))
		case "type_error_import_body":
			// the error sits inside a function body of the imported package:
			// its exported declarations stay intact
			if len(p.Pkgs[tpkg].Imports) == 0 {
				fault = ""
				break
			}
			dep := p.Pkgs[tpkg].Imports[0]
			must(os.WriteFile(filepath.Join(modRoot, filepath.FromSlash(p.Pkgs[dep].Dir), "zz_broken.go"), []byte(fmt.Sprintf("package %s\n\nfunc brokenBody() int {\n\tvar s string = 3\n\treturn s\n}\n", p.Pkgs[dep].Name)), 0o644))
		case "unused_import_root":
			// an unused import is a type error like any other
			must(os.WriteFile(filepath.Join(filepath.Dir(target), "zz_unused.go"), []byte(fmt.Sprintf("package %s\n\nimport \"fmt\"\n", p.Pkgs[tpkg].Name)), 0o644))
		case "unused_import_dep":
			if len(p.Pkgs[tpkg].Imports) == 0 {
				fault = ""
				break
			}
			dep := p.Pkgs[tpkg].Imports[0]
			must(os.WriteFile(filepath.Join(modRoot, filepath.FromSlash(p.Pkgs[dep].Dir), "zz_unused.go"), []byte(fmt.Sprintf("package %s\n\nimport strs \"strings\"\n", p.Pkgs[dep].Name)), 0o644))
		case "dir_for_file":
			args[k] = filepath.Dir(target)
			absFiles[k] = filepath.Dir(target)
		case "dangling_symlink":
			link := filepath.Join(filepath.Dir(target), "zz_link.go")
			must(os.Symlink(filepath.Join(base, "nowhere.go"), link))
			args[k] = link
			absFiles[k] = link
		case "go_unavailable":
			empty := filepath.Join(base, "emptybin")
			must(os.MkdirAll(empty, 0o755))
			os.Setenv("PATH", empty)
		case "syntax_error_root":
			must(os.WriteFile(filepath.Join(filepath.Dir(target), "zz_syntax.go"), []byte(fmt.Sprintf("package %s\n\nfunc broken( {\n", p.Pkgs[tpkg].Name)), 0o644))
		case "import_of_missing_package":
			must(os.WriteFile(filepath.Join(filepath.Dir(target), "zz_import.go"), []byte(fmt.Sprintf("package %s\n\nimport _ %q\n", p.Pkgs[tpkg].Name, p.Module+"/does/not/exist")), 0o644))
		case "no_go_mod":
			must(os.Remove(filepath.Join(modRoot, "go.mod")))
		case "empty_go_file":
			// a .go file without a package clause next to the target: the package has a syntax error
			must(os.WriteFile(filepath.Join(filepath.Dir(target), "zz_empty.go"), nil, 0o644))
		}
		if fault != "" {
			out.Fault(fault)
		}
	}

	savedFlags, hadFlags := os.LookupEnv("GOFLAGS")
	switch p.Goflags {
	case "unset":
		os.Unsetenv("GOFLAGS")
		out.Fault("env_goflags_unset")
	case "tags":
		os.Setenv("GOFLAGS", "-tags=verifx")
		out.Fault("env_goflags_tags")
	}
	defer func() {
		if hadFlags {
			os.Setenv("GOFLAGS", savedFlags)
		} else {
			os.Unsetenv("GOFLAGS")
		}
	}()
	oldwd, _ := os.Getwd()
	must(os.Chdir(cwd))
	var (
		pkgPaths []string
		goFiles  [][]string
		root     string
		err      error
		panicked any
	)
	load := func() {
		defer func() {
			if r := recover(); r != nil {
				panicked = r
			}
		}()
		pkgs, rt, e := analysis.LoadSources(args)
		root, err = rt, e
		for _, pk := range pkgs {
			if pk == nil {
				pkgPaths = append(pkgPaths, "<nil>")
				goFiles = append(goFiles, nil)
				continue
			}
			pkgPaths = append(pkgPaths, pk.PkgPath)
			goFiles = append(goFiles, pk.GoFiles)
		}
	}
	load()
	os.Chdir(oldwd)
	os.Setenv("PATH", savedPath)
	out.Steps = int64(len(args))

	describe := func() string {
		var dirs []string
		for _, ps := range p.Pkgs {
			dirs = append(dirs, "'"+ps.Dir+"'")
		}
		return fmt.Sprintf("module %s under %q, package dirs %s, cwd=%s, arguments=%q, fault=%q", p.Module, p.Outer, strings.Join(dirs, " "), p.Cwd, relAll(base, args), fault)
	}
	viol := func(clause, sig, format string, a ...any) *kernel.Outcome {
		out.Violation = &kernel.Violation{Property: "C17", Clause: clause, Signature: sig, Detail: fmt.Sprintf(format, a...) + "\n" + describe()}
		return out
	}
	if panicked != nil {
		if emptySet {
			return viol("load_panics", "empty file set", "LoadSources panicked on an empty file set: %v", panicked)
		}
		return viol("load_panics", "fault="+fault, "LoadSources panicked: %v", panicked)
	}
	if emptySet {
		// nothing to map: an error or an empty result are both fine
		out.Probe("empty_file_set_ok")
		return out
	}
	if fault != "" {
		if err == nil && !onlyNoPanic[fault] {
			return viol("environment_fault_not_reported", "fault="+fault, "LoadSources returned no error although the environment has fault %q", fault)
		}
		out.Probe("fault_reported_as_error")
		out.Keys = append(out.Keys, shape(&p)+"|"+fault)
		if p.Again && !onlyNoPanic[fault] {
			if fault == "go_unavailable" {
				os.Setenv("PATH", filepath.Join(base, "emptybin"))
			}
			must(os.Chdir(cwd))
			panicked, err = nil, nil
			pkgPaths, goFiles = nil, nil
			load()
			os.Chdir(oldwd)
			os.Setenv("PATH", savedPath)
			if panicked != nil {
				return viol("load_panics", "second load, fault="+fault, "the second LoadSources on the same faulty tree panicked: %v", panicked)
			}
			if err == nil {
				return viol("environment_fault_not_reported", "second load, fault="+fault, "fault %q was reported by the first LoadSources, but a second call with the same arguments on the unchanged tree, in the same process, returned no error", fault)
			}
			out.Probe("fault_reported_again")
		}
		if !(p.Repair && repairable[fault]) {
			return out
		}
		// third act: the damage is repaired, the same arguments are loaded again
		for _, ps := range p.Pkgs {
			matches, _ := filepath.Glob(filepath.Join(modRoot, filepath.FromSlash(ps.Dir), "zz_*.go"))
			for _, m := range matches {
				must(os.Remove(m))
			}
		}
		out.Fault("repair_after_" + fault)
		must(os.Chdir(cwd))
		panicked = nil
		pkgPaths, goFiles = nil, nil
		load()
		os.Chdir(oldwd)
		if panicked != nil {
			return viol("load_panics", "repair", "LoadSources panicked on the repaired tree: %v", panicked)
		}
		if err != nil {
			return viol("stale_result_after_change", "repair after "+fault, "the load failed as it should on fault %q; the damage was then removed and the same arguments loaded again in the same process: still an error: %v", fault, err)
		}
		fault = ""
		out.Probe("repair_seen")
	}
	sig := "analysis.LoadSources"
	if err != nil {
		return viol("valid_file_set_rejected", sig, "LoadSources failed on a set of existing, well-typed files of one module: %v", err)
	}
	if len(pkgPaths) != len(args) {
		return viol("package_list_length", sig, "%d packages returned for %d files", len(pkgPaths), len(args))
	}
	for i := range args {
		want := importPath(pkgOfArg(i))
		if pkgPaths[i] != want {
			return viol("file_mapped_to_wrong_package", sig, "file %d (%s): got package %s, want %s", i, relOne(base, args[i]), pkgPaths[i], want)
		}
		has := false
		for _, gf := range goFiles[i] {
			if gf == absFiles[i] {
				has = true
			}
		}
		if !has {
			return viol("file_mapped_to_wrong_package", sig, "file %d (%s) is not among the files of the package returned for it", i, relOne(base, args[i]))
		}
	}
	st, serr := os.Stat(root)
	if serr != nil || !st.IsDir() {
		return viol("root_is_not_an_existing_directory", sig, "common root %q: %v", relOne(base, root), serr)
	}
	absRoot := root
	if !filepath.IsAbs(absRoot) {
		absRoot = filepath.Join(cwd, root)
	}
	for i, f := range absFiles {
		if !isAncestor(absRoot, f) {
			return viol("root_is_not_an_ancestor", sig, "common root %q is not an ancestor of file %d (%s)", relOne(base, root), i, relOne(base, f))
		}
	}
	if p.Second != "" {
		// second act: damage the tree, load the same arguments again
		k := p.FaultA % len(args)
		target := absFiles[k]
		tpkg := pkgOfArg(k)
		applied := p.Second
		switch p.Second {
		case "type_error_root":
			must(os.WriteFile(filepath.Join(filepath.Dir(target), "zz_broken.go"), []byte(fmt.Sprintf("package %s\n\nvar broken int = \"not an int\"\n", p.Pkgs[tpkg].Name)), 0o644))
		case "syntax_error_root":
			must(os.WriteFile(filepath.Join(filepath.Dir(target), "zz_syntax.go"), []byte(fmt.Sprintf("package %s\n\nfunc broken( {\n", p.Pkgs[tpkg].Name)), 0o644))
		case "missing":
			must(os.Remove(target))
		case "same_size_rewrite":
			// the requested file itself is rewritten in place: same length, same
			// modification time (cp -p, rsync -t, a rewrite within one clock tick),
			// now with a type error
			st, serr := os.Stat(target)
			old, rerr := os.ReadFile(target)
			if serr != nil || rerr != nil || !strings.Contains(string(old), "struct{ A int }") {
				applied = "type_error_root"
				must(os.WriteFile(filepath.Join(filepath.Dir(target), "zz_broken.go"), []byte(fmt.Sprintf("package %s\n\nvar broken int = \"not an int\"\n", p.Pkgs[tpkg].Name)), 0o644))
				break
			}
			must(os.WriteFile(target, []byte(strings.Replace(string(old), "struct{ A int }", "struct{ A imt }", 1)), 0o644))
			must(os.Chtimes(target, st.ModTime(), st.ModTime()))
		case "type_error_import":
			if len(p.Pkgs[tpkg].Imports) == 0 {
				applied = "type_error_root"
				must(os.WriteFile(filepath.Join(filepath.Dir(target), "zz_broken.go"), []byte(fmt.Sprintf("package %s\n\nvar broken int = \"not an int\"\n", p.Pkgs[tpkg].Name)), 0o644))
			} else {
				dep := p.Pkgs[tpkg].Imports[0]
				must(os.WriteFile(filepath.Join(modRoot, filepath.FromSlash(p.Pkgs[dep].Dir), "zz_broken.go"), []byte(fmt.Sprintf("package %s\n\nvar broken int = \"not an int\"\n", p.Pkgs[dep].Name)), 0o644))
			}
		}
		out.Fault("second_act_" + applied)
		must(os.Chdir(cwd))
		var err2 error
		var panicked2 any
		func() {
			defer func() {
				if r := recover(); r != nil {
					panicked2 = r
				}
			}()
			_, _, err2 = analysis.LoadSources(args)
		}()
		os.Chdir(oldwd)
		fault = "second load after " + applied
		if panicked2 != nil {
			return viol("load_panics", "second act", "the second LoadSources panicked: %v", panicked2)
		}
		if err2 == nil {
			return viol("stale_result_after_change", "second act="+applied, "the files were loaded successfully, then the tree was damaged (%s) and the same arguments were loaded again in the same process: no error was reported", applied)
		}
		fault = ""
		out.Probe("second_act_reported")
	}
	ndirs := map[string]bool{}
	for _, f := range absFiles {
		ndirs[filepath.Dir(f)] = true
	}
	if len(ndirs) >= 2 {
		out.Keys = append(out.Keys, shape(&p))
		out.Probe("multi_directory_load_ok")
	} else {
		out.Probe("single_directory_load_ok")
	}
	out.Sample = map[string]any{"env": describe(), "root": relOne(base, root), "packages": pkgPaths}
	return out
}

func relOne(base, p string) string {
	if strings.HasPrefix(p, base) {
		return "<scratch>" + strings.TrimPrefix(p, base)
	}
	return p
}

func relAll(base string, ps []string) []string {
	out := make([]string, len(ps))
	for i, p := range ps {
		out[i] = relOne(base, p)
	}
	return out
}

// family names the directory families of the layout (for signatures).
func family(p *params) string {
	var ds []string
	for _, a := range p.Args {
		if a.Pkg < len(p.Pkgs) {
			ds = append(ds, p.Pkgs[a.Pkg].Dir)
		}
	}
	sort.Strings(ds)
	return strings.Join(dedupe(ds), ",")
}

func dedupe(xs []string) []string {
	var out []string
	for i, x := range xs {
		if i == 0 || x != xs[i-1] {
			out = append(out, x)
		}
	}
	return out
}

func shape(p *params) string {
	var sp []string
	for _, a := range p.Args {
		sp = append(sp, a.Spelling)
	}
	return fmt.Sprintf("%s|%s|%s|%s", family(p), p.Cwd, strings.Join(sp, ","), p.Outer)
}

func (c17) Shrink(raw json.RawMessage) []json.RawMessage {
	var p params
	json.Unmarshal(raw, &p)
	var out []json.RawMessage
	if c := p.Config; c != nil {
		emit := func(q cfgParams) { out = append(out, kernel.MustJSON(params{Config: &q})) }
		for _, rs := range kernel.ShrinkList(c.Req) {
			if len(rs) > 0 {
				q := *c
				q.Req = rs
				emit(q)
			}
		}
		if c.Outer != "w" {
			q := *c
			q.Outer = "w"
			emit(q)
		}
		for i := range c.Req {
			if c.Req[i].Spelling != "abs" {
				q := *c
				q.Req = append([]cfgReq(nil), c.Req...)
				q.Req[i].Spelling = "abs"
				emit(q)
			}
		}
		for i, pk := range c.Pkgs {
			if pk.Dir != "plain" && pk.Dir != "" {
				q := *c
				q.Pkgs = append([]cfgPkg(nil), c.Pkgs...)
				q.Pkgs[i].Dir = fmt.Sprintf("plain%d", i)
				emit(q)
			}
			for j, f := range pk.Files {
				if simple := fmt.Sprintf("f%d.go", j); f != simple {
					q := *c
					q.Pkgs = append([]cfgPkg(nil), c.Pkgs...)
					q.Pkgs[i].Files = append([]string(nil), pk.Files...)
					q.Pkgs[i].Files[j] = simple
					emit(q)
				}
			}
		}
		if c.EnvSet {
			q := *c
			q.EnvSet = false
			emit(q)
		}
		return out
	}
	for _, as := range kernel.ShrinkList(p.Args) {
		if len(as) == 0 {
			continue
		}
		q := p
		q.Args = as
		out = append(out, kernel.MustJSON(q))
	}
	// all-absolute spellings, simpler cwd, no outer dirs
	for i, a := range p.Args {
		if a.Spelling != "abs" {
			q := p
			q.Args = append([]fileArg(nil), p.Args...)
			q.Args[i].Spelling = "abs"
			out = append(out, kernel.MustJSON(q))
		}
	}
	if p.Cwd != "modroot" {
		q := p
		q.Cwd = "modroot"
		out = append(out, kernel.MustJSON(q))
	}
	for i := range p.Noise {
		q := p
		q.Noise = append(append([]string(nil), p.Noise[:i]...), p.Noise[i+1:]...)
		out = append(out, kernel.MustJSON(q))
	}
	if p.Repair {
		q := p
		q.Repair = false
		out = append(out, kernel.MustJSON(q))
	}
	if p.Again {
		q := p
		q.Again = false
		out = append(out, kernel.MustJSON(q))
	}
	if p.Goflags != "" {
		q := p
		q.Goflags, q.Gowork = "", false
		out = append(out, kernel.MustJSON(q))
	}
	if p.Gowork {
		q := p
		q.Gowork = false
		out = append(out, kernel.MustJSON(q))
	}
	if p.Symlink != "" {
		q := p
		q.Symlink = ""
		out = append(out, kernel.MustJSON(q))
	}
	if p.Line != "" {
		q := p
		q.Line = ""
		out = append(out, kernel.MustJSON(q))
	}
	if p.Cgo {
		q := p
		q.Cgo = false
		out = append(out, kernel.MustJSON(q))
	}
	if p.Outer != "" {
		q := p
		q.Outer = ""
		out = append(out, kernel.MustJSON(q))
	}
	// drop imports and unused packages from the tail
	for i := range p.Pkgs {
		if len(p.Pkgs[i].Imports) > 0 {
			q := p
			q.Pkgs = append([]pkgSpec(nil), p.Pkgs...)
			q.Pkgs[i].Imports = nil
			out = append(out, kernel.MustJSON(q))
		}
	}
	if n := len(p.Pkgs); n > 1 {
		used := false
		for _, a := range p.Args {
			used = used || a.Pkg == n-1
		}
		for _, ps := range p.Pkgs {
			for _, im := range ps.Imports {
				used = used || im == n-1
			}
		}
		if !used {
			q := p
			q.Pkgs = p.Pkgs[:n-1]
			out = append(out, kernel.MustJSON(q))
		}
	}
	return out
}

func (c17) Meta(env *kernel.Env) kernel.Meta {
	return kernel.Meta{
		Rule: "a run = one generated module tree (1-6 package directories from prefix-colliding families such as pa1|pa2, inner|inner2, a|ab|a/b, nested under optional outer directories) x a file set of 1-5 files (duplicates, shuffled) x a working directory (module root, a package dir, the parent, an unrelated dir, /) x a spelling per argument (absolute, relative, ./relative, dir/../dir/file) x legal bystanders in the package directories (test files, build-tag-excluded files, _ and . files, testdata, nested modules) x at most one environment fault, optionally repaired and loaded again; one run in five carries //line directives; one run in five is a configuration-file run instead: the built command `gomacro -config` over 1-4 keys in a module under directories and files named with $name, quotes, blanks, glob characters, with a twin tree at the path a careless expansion leads to (void when `go list` refuses a directory); distinct = distinct (directory set of the arguments, cwd class, spellings, outer dirs, fault); non-trivial = files from at least two directories, or a fault",
		Real: []string{"analysis.LoadSources (current tree)", "cmd/gomacro.go built unmodified from the current tree (newConfigFromJSON, Config.run, runActions, saveOutputs) for the configuration-file runs", "os, path/filepath, go/packages, the `go list` subprocess, a real scratch file system"},
		Stub: []string{"none (the environment is real, its content is generated)"},
		Assumptions: []string{
			"files are always arguments of one module; the loader's behaviour across modules is not part of the property",
			"every environment fault must surface as a non-nil error; the error text is not judged",
			"configuration-file runs: a package directory that `go list` refuses (file names the go command does not accept as source files) is outside the precondition and the run is void; no formatter is installed (PATH holds go and which only)",
		},
	}
}

func main() { kernel.Main(c17{}) }
