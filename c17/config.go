package main

// Configuration-file runs: the same question - does every requested file come
// back as the package that contains it, whatever the directories and files are
// called - asked through `gomacro -config conf.json`, i.e. through
// cmd/gomacro.go newConfigFromJSON + Config.run, which hand the keys of the
// configuration to analysis.LoadSources. Each file declares one type of its
// own; the go/randdata output written for a key must be about the type of that
// very file and of no other file (a twin tree whose path differs only by what a
// shell would expand stands next to the real one).

import (
	"bytes"
	"encoding/json"
	"fmt"
	"os"
	"os/exec"
	"path/filepath"
	"sort"
	"strings"
	"time"

	"verif/kernel"
)

type cfgPkg struct {
	Dir   string   `json:"dir"`
	Files []string `json:"files"`
}

type cfgReq struct {
	Pkg      int    `json:"pkg"`
	File     int    `json:"file"`
	Spelling string `json:"spelling"` // abs | rel
}

type cfgParams struct {
	Outer  string   `json:"outer"`
	Pkgs   []cfgPkg `json:"pkgs"`
	Req    []cfgReq `json:"requested"`
	EnvSet bool     `json:"env_set"` // the names after each '$' are environment variables (else unset)
	// Dart: per requested key, whether it also has a dart action (the Dart
	// files of all such keys are written together under one directory);
	// DartOnly runs the command with -dart-only (only the dart actions run)
	Dart     []bool `json:"dart,omitempty"`
	DartOnly bool   `json:"dart_only,omitempty"`
}

var cfgOuters = []string{"w", "work$old", "$x", "w$1/src", "o$$", "work${old}er", "lib$v2", "go$path/src", "$HOME/src", "a$b", "${u}x", "pre$", "it's", "dépôt", "50%", "w~1", "#tmp", "semi;colon", "amp&and", "(paren)", "star*", "q?", "[br]", "back\\slash", "tab\there", "new line", "=eq", "@at", "-dash", "+plus", ",comma", "{a,b}", "!bang", "\"quote\"", "<lt>", "|pipe", "`tick`"}
var cfgDirs = []string{"", "plain", "api", "api2", "api/v1", "apix", "ap", "_legacy", "sub/deep", "x.y", "v2", "_a/_b", "testdata/in", "internal/core", "vendor_x", "UPPER", "a-b", "a~b", "a+b"}
var cfgFiles = []string{"types.go", "types$v2.go", "a$b.go", "m.go", "z$.go", "it's.go", "a b.go", "é.go", "x_test_data.go", "a,b.go", "50%.go", "semi;.go", "UP.go", "a=b.go", "b$HOME.go", "c$PATH$.go", "d$$.go", "e$1.go",
	// (one name the go command refuses as a source file: such layouts are void, see the gate below)
	"#h.go"}

func generateConfig(r *kernel.Rand) *cfgParams {
	c := &cfgParams{Outer: kernel.Pick(r, cfgOuters), EnvSet: r.Chance(1, 2)}
	used := map[string]bool{}
	for n := r.Range(1, 3); len(c.Pkgs) < n; {
		d := kernel.Pick(r, cfgDirs)
		if used[d] {
			continue
		}
		used[d] = true
		pk := cfgPkg{Dir: d}
		seen := map[string]bool{}
		for m := r.Range(1, 3); len(pk.Files) < m; {
			f := kernel.Pick(r, cfgFiles)
			if !seen[f] {
				seen[f] = true
				pk.Files = append(pk.Files, f)
			}
		}
		c.Pkgs = append(c.Pkgs, pk)
	}
	for n := r.Range(1, 4); len(c.Req) < n; {
		pi := r.Intn(len(c.Pkgs))
		c.Req = append(c.Req, cfgReq{Pkg: pi, File: r.Intn(len(c.Pkgs[pi].Files)), Spelling: kernel.Pick(r, []string{"abs", "rel", "rel"})})
	}
	if r.Chance(1, 4) {
		// a long configuration: more packages (prefix siblings among them),
		// every file of every package requested
		many := []string{"f0.go", "f1.go", "f2.go", "g.go", "h.go", "z.go"}
		if r.Chance(1, 2) {
			// nothing but prefix siblings, each with many files
			c.Pkgs, used = nil, map[string]bool{}
		}
		for _, d := range []string{"api", "api2", "api/v1", "ap", "apix"} {
			if !used[d] && len(c.Pkgs) < 5 && r.Chance(2, 3) {
				used[d] = true
				c.Pkgs = append(c.Pkgs, cfgPkg{Dir: d, Files: many[:r.Range(2, len(many))]})
			}
		}
		if len(c.Pkgs) == 0 {
			c.Pkgs = append(c.Pkgs, cfgPkg{Dir: "api", Files: many[:3]})
		}
		c.Req = nil
		sp := kernel.Pick(r, []string{"abs", "rel"})
		for pi, pk := range c.Pkgs {
			for fi := range pk.Files {
				c.Req = append(c.Req, cfgReq{Pkg: pi, File: fi, Spelling: sp})
			}
		}
	}
	if r.Chance(1, 3) {
		any := false
		for range c.Req {
			d := r.Chance(1, 2)
			any = any || d
			c.Dart = append(c.Dart, d)
		}
		if !any {
			c.Dart[r.Intn(len(c.Dart))] = true
		}
		c.DartOnly = r.Chance(1, 2)
	}
	return c
}

// expandNames lists the names following a '$' in s ("$old", "${u}").
func expandNames(s string) []string {
	var out []string
	os.Expand(s, func(name string) string { out = append(out, name); return "" })
	return out
}

func cfgTypeName(twin string, i, j int) string { return fmt.Sprintf("U%s_%d_%d", twin, i, j) }

func cfgPackageName(dir string, i int) string { return fmt.Sprintf("p%d", i) }

var cfgBin string

// cfgTools returns a directory holding `go` and `which` only: no formatter is
// installed for these runs.
func cfgTools(env *kernel.Env) string {
	dir := filepath.Join(env.Scratch, "cfg-tools")
	if _, err := os.Stat(filepath.Join(dir, "go")); err == nil {
		return dir
	}
	tmp := fmt.Sprintf("%s.%d", dir, os.Getpid())
	if err := os.MkdirAll(tmp, 0o755); err != nil {
		kernel.Harnessf("environment setup: %v", err)
	}
	for _, tool := range []string{"go", "which"} {
		if p, err := exec.LookPath(tool); err == nil {
			if real, rerr := filepath.EvalSymlinks(p); rerr == nil {
				p = real
			}
			os.Symlink(p, filepath.Join(tmp, tool))
		} else if tool == "go" {
			kernel.Harnessf("go not found: %v", err)
		}
	}
	if err := os.Rename(tmp, dir); err != nil {
		os.RemoveAll(tmp) // another worker was first
	}
	return dir
}

func executeConfig(env *kernel.Env, c *cfgParams, out *kernel.Outcome) {
	bin := filepath.Join(filepath.Dir(os.Args[0]), "gomacro")
	if _, err := os.Stat(bin); err != nil {
		kernel.Harnessf("the command binary is missing: %v", err)
	}
	runCounter++
	base := filepath.Join(env.Scratch, fmt.Sprintf("c17cfg-%d-%d", os.Getpid(), runCounter))
	defer os.RemoveAll(base)
	must := func(err error) {
		if err != nil {
			kernel.Harnessf("environment setup: %v", err)
		}
	}
	// the variables a careless expansion would consult
	names := map[string]bool{}
	for _, s := range append([]string{c.Outer}, func() (fs []string) {
		for _, pk := range c.Pkgs {
			fs = append(fs, pk.Dir)
			fs = append(fs, pk.Files...)
		}
		return
	}()...) {
		for _, n := range expandNames(s) {
			names[n] = true
		}
	}
	expanded := func(s string) string {
		return os.Expand(s, func(name string) string {
			if c.EnvSet {
				return "ZZ"
			}
			return ""
		})
	}
	// the real tree, and a twin at every path a careless expansion leads to
	type tree struct {
		twin string
		root string
		file func(f string) string
	}
	realRoot := filepath.Join(base, "t", filepath.FromSlash(c.Outer), "mod")
	trees := []tree{{"", realRoot, func(f string) string { return f }}}
	if e := expanded(c.Outer); e != c.Outer {
		trees = append(trees, tree{"Twin", filepath.Join(base, "t", filepath.FromSlash(e), "mod"), func(f string) string { return f }})
	}
	var allTypes []string
	for _, tr := range trees {
		must(os.MkdirAll(tr.root, 0o755))
		must(os.WriteFile(filepath.Join(tr.root, "go.mod"), []byte("module example.com/cfg\n\ngo 1.23\n"), 0o644))
		for i, pk := range c.Pkgs {
			dir := filepath.Join(tr.root, filepath.FromSlash(pk.Dir))
			must(os.MkdirAll(dir, 0o755))
			for j, f := range pk.Files {
				tn := cfgTypeName(tr.twin, i, j)
				allTypes = append(allTypes, tn)
				must(os.WriteFile(filepath.Join(dir, f), []byte(fmt.Sprintf("package %s\n\ntype %s struct{ A int }\n", cfgPackageName(pk.Dir, i), tn)), 0o644))
				// the file a careless expansion of the file name leads to
				if e := expanded(f); e != f && e != ".go" && tr.twin == "" {
					if _, err := os.Stat(filepath.Join(dir, e)); err != nil {
						en := fmt.Sprintf("UExp_%d_%d", i, j)
						allTypes = append(allTypes, en)
						must(os.WriteFile(filepath.Join(dir, e), []byte(fmt.Sprintf("package %s\n\ntype %s struct{ A int }\n", cfgPackageName(pk.Dir, i), en)), 0o644))
					}
				}
			}
		}
	}
	outDir := filepath.Join(base, "out")
	must(os.MkdirAll(outDir, 0o755))
	must(os.MkdirAll(filepath.Join(base, "home"), 0o755))
	conf := map[string][]map[string]string{}
	type want struct {
		key, output, typ string
		dart             bool
		abs              string
	}
	var wants []want
	for ri, rq := range c.Req {
		pk := c.Pkgs[rq.Pkg]
		rel := filepath.Join(filepath.FromSlash(pk.Dir), pk.Files[rq.File])
		key := rel
		if rq.Spelling == "abs" {
			key = filepath.Join(realRoot, rel)
		}
		if _, dup := conf[key]; dup {
			continue
		}
		o := filepath.Join(outDir, fmt.Sprintf("o_%d.go", len(wants)))
		conf[key] = []map[string]string{{"Mode": "go/randdata", "Output": o}}
		dart := ri < len(c.Dart) && c.Dart[ri]
		if dart {
			conf[key] = append(conf[key], map[string]string{"Mode": "dart", "Output": filepath.Join(outDir, "unused.dart")})
		}
		wants = append(wants, want{key, o, cfgTypeName("", rq.Pkg, rq.File), dart, filepath.Join(realRoot, rel)})
	}
	dartDir := filepath.Join(outDir, "dart")
	if len(c.Dart) > 0 {
		must(os.MkdirAll(dartDir, 0o755))
		conf["_dart"] = []map[string]string{{"Output": dartDir}}
	}
	cb, _ := json.MarshalIndent(conf, "", " ")
	confFile := filepath.Join(base, "conf.json")
	must(os.WriteFile(confFile, cb, 0o644))

	var envv []string
	for _, kv := range os.Environ() {
		k, _, _ := strings.Cut(kv, "=")
		if k == "PATH" || k == "HOME" || k == "PWD" || names[k] {
			continue
		}
		envv = append(envv, kv)
	}
	envv = append(envv, "PATH="+cfgTools(env), "HOME="+filepath.Join(base, "home"), "PWD="+realRoot)
	var sortedNames []string
	for n := range names {
		sortedNames = append(sortedNames, n)
	}
	sort.Strings(sortedNames)
	if c.EnvSet {
		for _, n := range sortedNames {
			if n != "HOME" && n != "PATH" && n != "PWD" {
				envv = append(envv, n+"=ZZ")
			}
		}
	}
	// the precondition is the go command's to judge: a directory it refuses to
	// list (file names it does not accept as source files, ...) is not a package
	// of the module, and the run is void
	for _, pk := range c.Pkgs {
		gl := exec.Command(filepath.Join(cfgTools(env), "go"), "list", "./"+pk.Dir)
		gl.Dir = realRoot
		gl.Env = envv
		if lb, lerr := gl.CombinedOutput(); lerr != nil {
			_ = lb
			out.Probe("config_layout_refused_by_go_list")
			out.Keys = append(out.Keys, fmt.Sprintf("config-void|%s|%v", pk.Dir, pk.Files))
			return
		}
	}
	cmdArgs := []string{"-config", confFile}
	if c.DartOnly {
		cmdArgs = []string{"-config", "-dart-only", confFile}
		out.Fault("config_dart_only")
	}
	cmd := exec.Command(bin, cmdArgs...)
	cmd.Dir = realRoot
	cmd.Env = envv
	var buf bytes.Buffer
	cmd.Stdout, cmd.Stderr = &buf, &buf
	must(cmd.Start())
	done := make(chan error, 1)
	go func() { done <- cmd.Wait() }()
	var err error
	select {
	case err = <-done:
	case <-time.After(5 * time.Minute):
		cmd.Process.Kill()
		<-done
		kernel.Harnessf("the command did not end within five minutes (%s)", confFile)
	}
	out.Steps += int64(len(wants)) + 1
	out.Fault("config_run")
	if c.Outer != expanded(c.Outer) {
		out.Fault("config_twin_tree_at_expanded_path")
	}
	out.Keys = append(out.Keys, fmt.Sprintf("config|%s|%v|%d|%v", c.Outer, c.Pkgs, len(wants), c.EnvSet))
	describe := func() string {
		text := buf.String()
		if len(text) > 1500 {
			text = text[:1500] + "..."
		}
		return fmt.Sprintf("module root %s, working directory = module root, configuration:\n%s\ncommand output:\n%s", realRoot, cb, text)
	}
	if err != nil {
		out.Violation = &kernel.Violation{Property: "C17", Clause: "command_fails_on_existing_files",
			Signature: fmt.Sprintf("config outer=%q", c.Outer),
			Detail:    fmt.Sprintf("gomacro -config fails (%v) although every configured file exists and its package type-checks\n%s", err, describe())}
		return
	}
	// the root the command announces (and hands to the Dart linker): an
	// existing directory, ancestor of every configured file
	if _, after, found := strings.Cut(buf.String(), "Root directory: "); found {
		root, _, _ := strings.Cut(after, "\n")
		// (a directory name may itself contain a newline: judge only a root that
		// is a prefix of the module root or lies inside it)
		if !strings.Contains(realRoot, "\n") {
			st, serr := os.Stat(root)
			if serr != nil || !st.IsDir() {
				out.Violation = &kernel.Violation{Property: "C17", Clause: "root_not_an_existing_directory", Signature: fmt.Sprintf("config outer=%q", c.Outer),
					Detail: fmt.Sprintf("the command announces the root %q, which is not an existing directory (%v)\n%s", root, serr, describe())}
				return
			}
			for _, w := range wants {
				if !isAncestor(root, w.abs) && filepath.Clean(root) != filepath.Dir(w.abs) {
					out.Violation = &kernel.Violation{Property: "C17", Clause: "root_not_an_ancestor", Signature: fmt.Sprintf("config %d keys", len(wants)),
						Detail: fmt.Sprintf("the command announces the root %q, which is not an ancestor of the configured file %s\n%s", root, w.abs, describe())}
					return
				}
			}
		}
	}
	if len(c.Dart) > 0 {
		out.Fault("config_dart_actions")
		var all strings.Builder
		ents, _ := os.ReadDir(dartDir)
		for _, e := range ents {
			if b, rerr := os.ReadFile(filepath.Join(dartDir, e.Name())); rerr == nil {
				all.Write(b)
			}
		}
		// (one file may be configured under two spellings: it has a dart action
		// when one of its keys has)
		dartType := map[string]bool{}
		for _, w := range wants {
			dartType[w.typ] = dartType[w.typ] || w.dart
		}
		for _, w := range wants {
			has := strings.Contains(all.String(), "class "+w.typ+" ")
			w.dart = dartType[w.typ]
			if w.dart && !has {
				out.Violation = &kernel.Violation{Property: "C17", Clause: "output_not_from_the_requested_file", Signature: fmt.Sprintf("config dart key=%q", filepath.Base(w.key)),
					Detail: fmt.Sprintf("the key %q has a dart action but no Dart file declares the class %s of that file\nDart files:\n%s\n%s", w.key, w.typ, all.String(), describe())}
				return
			}
			if !w.dart && has {
				out.Violation = &kernel.Violation{Property: "C17", Clause: "output_not_from_the_requested_file", Signature: fmt.Sprintf("config dart key=%q", filepath.Base(w.key)),
					Detail: fmt.Sprintf("the key %q has no dart action but a Dart file declares the class %s of that file\n%s", w.key, w.typ, describe())}
				return
			}
		}
	}
	for _, w := range wants {
		if c.DartOnly {
			break // only the dart actions run
		}
		b, rerr := os.ReadFile(w.output)
		if rerr != nil {
			out.Violation = &kernel.Violation{Property: "C17", Clause: "configured_file_not_generated",
				Signature: fmt.Sprintf("config key=%q", filepath.Base(w.key)),
				Detail:    fmt.Sprintf("the command ended with status 0 but wrote nothing for the key %q (%v)\n%s", w.key, rerr, describe())}
			return
		}
		text := string(b)
		if !strings.Contains(text, "func rand"+w.typ+"(") {
			out.Violation = &kernel.Violation{Property: "C17", Clause: "output_not_from_the_requested_file",
				Signature: fmt.Sprintf("config key=%q", filepath.Base(w.key)),
				Detail:    fmt.Sprintf("the output written for the key %q does not generate the type %s declared in that file:\n%s\n%s", w.key, w.typ, text, describe())}
			return
		}
		for _, other := range allTypes {
			if other != w.typ && strings.Contains(text, "func rand"+other+"(") {
				out.Violation = &kernel.Violation{Property: "C17", Clause: "output_not_from_the_requested_file",
					Signature: fmt.Sprintf("config key=%q", filepath.Base(w.key)),
					Detail:    fmt.Sprintf("the output written for the key %q generates the type %s, which is declared in another file\n%s", w.key, other, describe())}
				return
			}
		}
	}
}
