# sourced by ./check for C05: build the batch (programs + generated schema and CRUD code) and its binary
TIER=quick
for a in "${ARGS[@]}"; do case "$a" in -tier=*) TIER="${a#-tier=}";; esac; done
build "$SCR/bin/c05prep" ./c05/prep
"$SCR/bin/c05prep" -repo "$SCR/repo" -verif "$VERIF" -out "$SCR/c05batch" -bin "$SCR/bin/c05" -tier "$TIER" -seed "${VERIF_SEED:-1}" || exit 2
BUILD_DONE=1
