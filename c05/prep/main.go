// prep builds the C05 batch: programs as sibling packages of one module, the
// schema (generator/sql) and the CRUD file (generator/go/sqlcrud) of the tree
// under test for each, imports fixed with x/tools/imports, a registry glue
// file, and one binary linking everything with the simulated database.
package main

import (
	"encoding/json"
	"flag"
	"fmt"
	"go/ast"
	"os"
	"path/filepath"
	"sort"
	"strings"

	"golang.org/x/tools/imports"

	"github.com/benoitkugler/gomacro/analysis"
	"github.com/benoitkugler/gomacro/generator"
	"github.com/benoitkugler/gomacro/generator/go/sqlcrud"
	gensql "github.com/benoitkugler/gomacro/generator/sql"

	"verif/batch"
	"verif/c05/run"
	"verif/kernel"
	"verif/synth"
)

func fatal(format string, a ...any) {
	fmt.Fprintf(os.Stderr, "HARNESS-ERROR: c05 prep: "+format+"\n", a...)
	os.Exit(2)
}

func generate(dir string, p *synth.Program, sets bool) (files map[string]string, nfuncs int, err error) {
	defer func() {
		if r := recover(); r != nil {
			err = fmt.Errorf("generator panicked: %v", r)
		}
	}()
	file := p.Analyse[len(p.Analyse)-1]
	src := filepath.Join(dir, p.Name, file)
	pkgs, _, lerr := analysis.LoadSources([]string{src})
	if lerr != nil {
		return nil, 0, fmt.Errorf("load: %v", lerr)
	}
	ana := analysis.NewAnalysisFromFile(pkgs[0], src)
	createSQL := generator.WriteDeclarations(gensql.Generate(ana))
	crud := generator.WriteDeclarations(sqlcrud.Generate(ana, sets))
	files = map[string]string{}
	path := filepath.Join(dir, p.Name, "verif_crud_gen.go")
	fixed, ierr := imports.Process(path, []byte(crud), &imports.Options{Comments: true, TabIndent: true, TabWidth: 8})
	if ierr != nil {
		fixed = []byte(crud)
	}
	files["verif_crud_gen.go"] = string(fixed)
	files["verif_create.sql"] = createSQL

	decls, _, perr := batch.FuncDecls(string(fixed))
	if perr != nil {
		return files, 0, nil
	}
	tableNames := map[string]bool{}
	for _, t := range p.Tables {
		tableNames[t.Name] = true
	}
	var b strings.Builder
	fmt.Fprintf(&b, "package %s\n\nimport (\n\t\"verif/c05/run\"\n)\n\n// VerifC05 registers the generated functions of this program.\nfunc VerifC05() run.Program {\n\treturn run.Program{\n\t\tName: %q,\n\t\tSets: %v,\n\t\tCreateSQL: %q,\n\t\tInfo: %q,\n\t\tFuncs: map[string]any{\n", pkgs[0].Types.Name(), p.Name, sets, createSQL, mustJSON(p.Tables))
	for _, fd := range decls {
		switch {
		case fd.Recv == nil && ast.IsExported(fd.Name.Name):
			fmt.Fprintf(&b, "\t\t\t%q: %s,\n", fd.Name.Name, fd.Name.Name)
			nfuncs++
		case fd.Recv != nil && len(fd.Recv.List) == 1:
			// methods of the table structs (Insert, Update, Delete) and of
			// their collection types <T>s (IDs, By<F>, <F>s)
			if id, ok := fd.Recv.List[0].Type.(*ast.Ident); ok && (tableNames[id.Name] || tableNames[strings.TrimSuffix(id.Name, "s")]) && ast.IsExported(fd.Name.Name) {
				fmt.Fprintf(&b, "\t\t\t%q: %s.%s,\n", id.Name+"."+fd.Name.Name, id.Name, fd.Name.Name)
				nfuncs++
			}
		}
	}
	// parameter names of the exported functions: custom queries are called by
	// the names of their placeholders, whatever order the signature lists them in
	b.WriteString("\t\t},\n\t\tParams: map[string][]string{\n")
	for _, fd := range decls {
		if fd.Recv != nil || !ast.IsExported(fd.Name.Name) || fd.Type.Params == nil {
			continue
		}
		var names []string
		for _, f := range fd.Type.Params.List {
			if len(f.Names) == 0 {
				names = append(names, "_")
			}
			for _, n := range f.Names {
				names = append(names, n.Name)
			}
		}
		fmt.Fprintf(&b, "\t\t\t%q: {", fd.Name.Name)
		for _, n := range names {
			fmt.Fprintf(&b, "%q, ", n)
		}
		b.WriteString("},\n")
	}
	b.WriteString("\t\t},\n\t\tTypes: map[string]any{\n")
	for _, t := range p.Tables {
		fmt.Fprintf(&b, "\t\t\t%q: %s{},\n", t.Name, t.Name)
	}
	b.WriteString("\t\t},\n\t\tEnums: map[string][]any{\n")
	for _, e := range p.Enums {
		if e.Pkg != pkgs[0].PkgPath || len(e.Exported) == 0 {
			continue
		}
		// every constant of the enum is a legal column value, unexported ones
		// included (the glue lives in the same package and can name them)
		all := append(append([]string(nil), e.Exported...), e.Unexported...)
		fmt.Fprintf(&b, "\t\t\t%q: {%s},\n", e.Name, strings.Join(all, ", "))
	}
	b.WriteString("\t\t},\n\t}\n}\n")
	files["verif_glue.go"] = b.String()
	return files, nfuncs, nil
}

func mustJSON(v any) string {
	b, err := json.Marshal(v)
	if err != nil {
		fatal("%v", err)
	}
	return string(b)
}

func main() {
	fs := flag.NewFlagSet("c05prep", flag.ExitOnError)
	repo := fs.String("repo", "", "scratch copy of the repository")
	verif := fs.String("verif", "/verif", "")
	out := fs.String("out", "", "batch directory")
	bin := fs.String("bin", "", "binary to build")
	tier := fs.String("tier", "quick", "")
	seed := fs.Uint64("seed", 1, "")
	fs.Parse(os.Args[1:])
	if err := batch.WriteModule(*out, *verif, *repo, map[string]string{"github.com/lib/pq": filepath.Join(*verif, "stubs", "pq")}); err != nil {
		fatal("%v", err)
	}
	var progs []*synth.Program
	kinds := map[string]string{}
	seeds := map[string]uint64{}
	ents, _ := os.ReadDir(filepath.Join(*verif, "corpus"))
	for _, e := range ents {
		if !e.IsDir() {
			continue
		}
		if _, err := os.Stat(filepath.Join(*verif, "corpus", e.Name(), "verif-c05")); err != nil {
			continue
		}
		p, err := batch.LoadCorpus(filepath.Join(*verif, "corpus"), e.Name())
		if err != nil {
			fatal("%v", err)
		}
		progs = append(progs, p)
		kinds[p.Name] = "corpus"
	}
	nsynth := 7
	if *tier == "thorough" {
		nsynth = 40
	}
	for i := 0; i < nsynth; i++ {
		s := kernel.Mix(*seed, "C05-program", i)
		name := fmt.Sprintf("q%d", i)
		p := synth.Generate(kernel.NewRand(s), name, synth.Profile{SQL: true, OnlySQL: true, RandSafe: true, MinSub: 0, MaxSub: 1, MaxDecls: 4, OneFile: true, Module: batch.Module + "/" + name})
		progs = append(progs, p)
		kinds[name] = "synth"
		seeds[name] = s
	}
	for _, p := range progs {
		if err := batch.WriteProgram(*out, p); err != nil {
			fatal("%v", err)
		}
	}
	info := run.BatchInfo{}
	var kept []*synth.Program
	for i, p := range progs {
		sets := i%2 == 1
		files, nf, err := generate(*out, p, sets)
		if err != nil {
			info.Dropped = append(info.Dropped, fmt.Sprintf("%s: %v", p.Name, err))
			os.Rename(filepath.Join(*out, p.Name), filepath.Join(*out, "..", "dropped-"+p.Name))
			continue
		}
		for name, text := range files {
			if werr := os.WriteFile(filepath.Join(*out, p.Name, name), []byte(text), 0o644); werr != nil {
				fatal("%v", werr)
			}
		}
		kept = append(kept, p)
		info.Programs = append(info.Programs, run.ProgInfo{Name: p.Name, Kind: kinds[p.Name], Seed: seeds[p.Name], Tables: len(p.Tables), Funcs: nf, Sets: sets})
	}
	var final []*synth.Program
	var finalInfo []run.ProgInfo
	for i, p := range kept {
		if outb, err := batch.GoBuild(*out, os.DevNull, "./"+p.Name); err != nil {
			msg := strings.TrimSpace(string(outb))
			if len(msg) > 800 {
				msg = msg[:800] + "..."
			}
			info.Dropped = append(info.Dropped, fmt.Sprintf("%s: generated code does not compile: %s", p.Name, msg))
			os.Rename(filepath.Join(*out, p.Name), filepath.Join(*out, "..", "dropped-"+p.Name))
			continue
		}
		final = append(final, p)
		finalInfo = append(finalInfo, info.Programs[i])
	}
	info.Programs = finalInfo
	sort.Strings(info.Dropped)
	for _, d := range info.Dropped {
		fmt.Fprintln(os.Stderr, "c05 prep: dropped", d)
	}
	if len(final)*2 < len(progs) || len(final) == 0 {
		fatal("more than half of the programs were dropped")
	}
	var b strings.Builder
	b.WriteString("package main\n\nimport (\n\t\"verif/c05/run\"\n\n")
	for i, p := range final {
		fmt.Fprintf(&b, "\tp%d %q\n", i, batch.Module+"/"+p.Name)
	}
	b.WriteString(")\n\nfunc main() {\n\trun.Main([]run.Program{\n")
	for i := range final {
		fmt.Fprintf(&b, "\t\tp%d.VerifC05(),\n", i)
	}
	fmt.Fprintf(&b, "\t}, %q)\n}\n", mustJSON(info))
	os.MkdirAll(filepath.Join(*out, "cmd"), 0o755)
	if err := os.WriteFile(filepath.Join(*out, "cmd", "main.go"), []byte(b.String()), 0o644); err != nil {
		fatal("%v", err)
	}
	if outb, err := batch.GoBuild(*out, *bin, "./cmd"); err != nil {
		fatal("link of the batch binary failed:\n%s", outb)
	}
	fmt.Fprintf(os.Stderr, "c05 prep: %d programs in the batch, %d dropped\n", len(final), len(info.Dropped))
}
