// Package run is the generic half of the C05 harness: it drives the CRUD
// functions gomacro generated for a program, through reflection, against the
// simulated PostgreSQL loaded from the schema gomacro generated for the same
// program, and judges every call against a map reference model built from
// the source's own description of the tables.
package run

import (
	"database/sql"
	"fmt"
	"reflect"
	"sort"
	"strings"
	"time"

	"verif/kernel"
	"verif/synth"
)

var timeType = reflect.TypeOf(time.Time{})

func isTimeLike(t reflect.Type) bool {
	return t.Kind() == reflect.Struct && t.ConvertibleTo(timeType) && t.NumField() == timeType.NumField() && t.Field(0).Name == "wall"
}

func instant(v reflect.Value) (int64, int64) {
	wall := v.Field(0).Uint()
	ext := v.Field(1).Int()
	nsec := int64(wall & (1<<30 - 1))
	if wall>>63 != 0 {
		const wallToInternal = (1884*365 + 1884/4 - 1884/100 + 1884/400) * 86400
		return int64(wall<<1>>31) + wallToInternal, nsec
	}
	return ext, nsec
}

// equalish: deep equality with nil == empty for slices and maps, instant
// equality for times.
// dateColumns: table struct type -> indices of the fields stored in a `date`
// column. A date column keeps the calendar day the value shows in its own
// location (that is what lib/pq sends and PostgreSQL reads), whatever the instant.
var dateColumns = map[reflect.Type]map[int]bool{}

func calendarDay(v reflect.Value) [3]int {
	tm := v.Convert(timeType).Interface().(time.Time)
	y, m, d := tm.Date()
	return [3]int{y, int(m), d}
}

func equalish(a, b reflect.Value) bool {
	if a.Type() != b.Type() {
		return false
	}
	t := a.Type()
	switch t.Kind() {
	case reflect.Struct:
		if isTimeLike(t) {
			sa, na := instant(a)
			sb, nb := instant(b)
			return sa == sb && na == nb
		}
		for i := 0; i < t.NumField(); i++ {
			if dateColumns[t][i] && isTimeLike(t.Field(i).Type) {
				if calendarDay(a.Field(i)) != calendarDay(b.Field(i)) {
					return false
				}
				continue
			}
			if !equalish(a.Field(i), b.Field(i)) {
				return false
			}
		}
		return true
	case reflect.Slice, reflect.Array:
		if a.Len() != b.Len() {
			return false
		}
		for i := 0; i < a.Len(); i++ {
			if !equalish(a.Index(i), b.Index(i)) {
				return false
			}
		}
		return true
	case reflect.Map:
		if a.Len() != b.Len() {
			return false
		}
		it := a.MapRange()
		for it.Next() {
			bv := b.MapIndex(it.Key())
			if !bv.IsValid() || !equalish(it.Value(), bv) {
				return false
			}
		}
		return true
	case reflect.Interface, reflect.Ptr:
		if a.IsNil() || b.IsNil() {
			return a.IsNil() == b.IsNil()
		}
		return equalish(a.Elem(), b.Elem())
	case reflect.Bool:
		return a.Bool() == b.Bool()
	case reflect.Int, reflect.Int8, reflect.Int16, reflect.Int32, reflect.Int64:
		return a.Int() == b.Int()
	case reflect.Uint, reflect.Uint8, reflect.Uint16, reflect.Uint32, reflect.Uint64:
		return a.Uint() == b.Uint()
	case reflect.Float32, reflect.Float64:
		return a.Float() == b.Float()
	case reflect.String:
		return a.String() == b.String()
	}
	return true
}

// show renders a struct value for reports (times as instants).
func show(v reflect.Value) string {
	switch v.Kind() {
	case reflect.Struct:
		if isTimeLike(v.Type()) {
			s, n := instant(v)
			return time.Unix(s-62135596800, n).UTC().Format(time.RFC3339Nano)
		}
		var parts []string
		for i := 0; i < v.NumField(); i++ {
			parts = append(parts, v.Type().Field(i).Name+":"+show(v.Field(i)))
		}
		return "{" + strings.Join(parts, " ") + "}"
	case reflect.Slice, reflect.Array:
		if v.Kind() == reflect.Slice && v.IsNil() {
			return "nil"
		}
		var parts []string
		for i := 0; i < v.Len(); i++ {
			parts = append(parts, show(v.Index(i)))
		}
		return "[" + strings.Join(parts, " ") + "]"
	case reflect.Map:
		var parts []string
		it := v.MapRange()
		for it.Next() {
			parts = append(parts, show(it.Key())+":"+show(it.Value()))
		}
		sort.Strings(parts)
		return "map[" + strings.Join(parts, " ") + "]"
	case reflect.String:
		return fmt.Sprintf("%q", v.String())
	case reflect.Bool:
		return fmt.Sprint(v.Bool())
	case reflect.Int, reflect.Int8, reflect.Int16, reflect.Int32, reflect.Int64:
		return fmt.Sprint(v.Int())
	case reflect.Uint, reflect.Uint8, reflect.Uint16, reflect.Uint32, reflect.Uint64:
		return fmt.Sprint(v.Uint())
	case reflect.Float32, reflect.Float64:
		return fmt.Sprint(v.Float())
	}
	return "?"
}

var trickyStrings = []string{"", "a", "hello world", "it's", `quo"te`, `back\slash`, "comma,brace{}", "é€ unicode", "NULL", "null", " lead", "trail ", "tab\tx", "line\nbreak", "$1", "percent%s", "(paren)", "semi;colon", "--dash"}

// gen builds column values.
type gen struct {
	r       *kernel.Rand
	counter *int64 // history-wide: unique scalars
	prog    *Program
}

func (g *gen) uniqueInt() int64 {
	*g.counter++
	return *g.counter
}

func (g *gen) intFor(k reflect.Kind, unique bool) int64 {
	if unique {
		n := g.uniqueInt()
		switch k {
		case reflect.Uint8:
			return n % 256 // cannot stay unique beyond 255: callers avoid unique uint8
		case reflect.Int16, reflect.Uint16, reflect.Int8:
			return n % 30000
		}
		return 1000 + n
	}
	switch k {
	case reflect.Uint8:
		return int64(g.r.Intn(256))
	case reflect.Int8:
		return int64(g.r.Range(-128, 127))
	case reflect.Int16:
		return int64(g.r.Range(-32768, 32767))
	case reflect.Uint16:
		if g.r.Chance(1, 4) {
			return 65535 - int64(g.r.Intn(3)) // the top of the Go range
		}
		return int64(g.r.Intn(65536))
	case reflect.Uint, reflect.Uint32, reflect.Uint64:
		return int64(g.r.Intn(1 << 31))
	}
	switch g.r.Intn(6) {
	case 0:
		return 0
	case 1:
		return 1<<31 - 1
	case 2:
		return -(1 << 31)
	}
	return int64(g.r.Intn(1<<31)) - 1<<30
}

func setInt(v reflect.Value, n int64) {
	switch v.Kind() {
	case reflect.Int, reflect.Int8, reflect.Int16, reflect.Int32, reflect.Int64:
		v.SetInt(n)
	case reflect.Uint, reflect.Uint8, reflect.Uint16, reflect.Uint32, reflect.Uint64:
		if n < 0 {
			n = -n
		}
		v.SetUint(uint64(n))
	}
}

func (g *gen) str(unique bool) string {
	if unique {
		return fmt.Sprintf("u%d-%s", g.uniqueInt(), kernel.Pick(g.r, trickyStrings))
	}
	if g.r.Chance(1, 2) {
		return kernel.Pick(g.r, trickyStrings)
	}
	return fmt.Sprintf("s%d", g.r.Intn(1000))
}

func (g *gen) float32Exact() float64 {
	switch g.r.Intn(5) {
	case 0:
		return 0
	case 1:
		return -1.5
	}
	return float64(g.r.Intn(1<<20)-1<<19) / 8
}

func (g *gen) whenSeconds() time.Time {
	switch g.r.Intn(16) {
	case 0:
		return time.Time{} // Go's zero time is an ordinary timestamp for PostgreSQL (0001-01-01)
	case 1:
		return time.Date(1899, 12, 31, 23, 59, 59, 0, time.UTC) // before the Unix epoch
	}
	return time.Unix(int64(g.r.Intn(1<<31)), 0).UTC()
}

func (g *gen) enumValue(name string) (reflect.Value, bool) {
	vals := g.prog.Enums[name]
	if len(vals) == 0 {
		return reflect.Value{}, false
	}
	return reflect.ValueOf(kernel.Pick(g.r, vals)), true
}

// fillAny fills a value of arbitrary shape (JSON payloads, elements).
func (g *gen) fillAny(v reflect.Value, depth int) {
	t := v.Type()
	if vals, ok := g.prog.Enums[t.Name()]; ok && len(vals) > 0 && reflect.TypeOf(vals[0]) == t {
		v.Set(reflect.ValueOf(kernel.Pick(g.r, vals)))
		return
	}
	switch t.Kind() {
	case reflect.Bool:
		v.SetBool(g.r.Bool())
	case reflect.Int, reflect.Int8, reflect.Int16, reflect.Int32, reflect.Int64, reflect.Uint, reflect.Uint8, reflect.Uint16, reflect.Uint32, reflect.Uint64:
		setInt(v, g.intFor(t.Kind(), false))
	case reflect.Float32, reflect.Float64:
		v.SetFloat(g.float32Exact())
	case reflect.String:
		v.SetString(g.str(false))
	case reflect.Struct:
		if isTimeLike(t) {
			v.Set(reflect.ValueOf(g.whenSeconds()).Convert(t))
			return
		}
		for i := 0; i < t.NumField(); i++ {
			if t.Field(i).IsExported() {
				g.fillAny(v.Field(i), depth+1)
			}
		}
	case reflect.Slice:
		n := g.r.Intn(4)
		if g.r.Chance(1, 6) {
			return // nil
		}
		s := reflect.MakeSlice(t, n, n)
		for i := 0; i < n; i++ {
			g.fillAny(s.Index(i), depth+1)
		}
		v.Set(s)
	case reflect.Array:
		for i := 0; i < v.Len(); i++ {
			g.fillAny(v.Index(i), depth+1)
		}
	case reflect.Map:
		if g.r.Chance(1, 6) {
			return
		}
		m := reflect.MakeMap(t)
		for i := g.r.Intn(4); i > 0; i-- {
			k := reflect.New(t.Key()).Elem()
			g.fillAny(k, depth+1)
			e := reflect.New(t.Elem()).Elem()
			g.fillAny(e, depth+1)
			m.SetMapIndex(k, e)
		}
		v.Set(m)
	}
}

// fkGet reads a foreign key field: plain integer kinds, sql.NullInt64, or a
// local {Valid bool; <ID> T} wrapper.
func fkGet(v reflect.Value) (int64, bool) {
	switch v.Kind() {
	case reflect.Int, reflect.Int8, reflect.Int16, reflect.Int32, reflect.Int64:
		return v.Int(), true
	case reflect.Struct:
		var id int64
		valid := false
		for i := 0; i < v.NumField(); i++ {
			f := v.Field(i)
			if v.Type().Field(i).Name == "Valid" {
				valid = f.Bool()
			} else if f.CanInt() {
				id = f.Int()
			}
		}
		return id, valid
	}
	return 0, false
}

func fkSet(v reflect.Value, id int64, valid bool) {
	switch v.Kind() {
	case reflect.Int, reflect.Int8, reflect.Int16, reflect.Int32, reflect.Int64:
		v.SetInt(id)
	case reflect.Struct:
		for i := 0; i < v.NumField(); i++ {
			f := v.Field(i)
			if v.Type().Field(i).Name == "Valid" {
				f.SetBool(valid)
			} else if f.CanInt() {
				if valid {
					f.SetInt(id)
				} else {
					f.SetInt(0)
				}
			}
		}
	}
}

// fillColumn fills one non-key column of a row.
func (g *gen) fillColumn(fv reflect.Value, c *synth.ColumnInfo, unique bool) {
	t := fv.Type()
	switch c.Kind {
	case "bool":
		fv.SetBool(g.r.Bool())
	case "int":
		setInt(fv, g.intFor(t.Kind(), unique))
	case "float":
		fv.SetFloat(g.float32Exact())
	case "string":
		fv.SetString(g.str(unique))
	case "enum":
		if ev, ok := g.enumValue(c.Enum); ok {
			fv.Set(ev)
		}
	case "time":
		fv.Set(reflect.ValueOf(g.whenSeconds()).Convert(t))
	case "date":
		d := g.whenSeconds()
		y, m, dd := d.Date()
		// a day is a day in any location: midnight, or some other hour, of a zone east or west of UTC
		loc := kernel.Pick(g.r, []*time.Location{time.UTC, time.UTC, time.FixedZone("east", 3600), time.FixedZone("west", -8*3600), time.FixedZone("far-east", 13*3600)})
		hour := kernel.Pick(g.r, []int{0, 0, 0, 21, 3})
		if y <= 1 {
			loc, hour = time.UTC, 0
		}
		fv.Set(reflect.ValueOf(time.Date(y, m, dd, hour, 0, 0, 0, loc)).Convert(t))
	case "nulltime":
		if g.r.Chance(2, 3) {
			fv.Set(reflect.ValueOf(sql.NullTime{Time: g.whenSeconds(), Valid: true}))
		}
	case "nullstring":
		if g.r.Chance(2, 3) {
			fv.Set(reflect.ValueOf(sql.NullString{String: g.str(false), Valid: true}))
		}
	case "nullbool":
		if g.r.Chance(2, 3) {
			fv.Set(reflect.ValueOf(sql.NullBool{Bool: g.r.Bool(), Valid: true}))
		}
	case "nullint32":
		if g.r.Chance(2, 3) {
			fv.Set(reflect.ValueOf(sql.NullInt32{Int32: int32(g.intFor(reflect.Int32, false)), Valid: true}))
		}
	case "nullfloat":
		if g.r.Chance(2, 3) {
			fv.Set(reflect.ValueOf(sql.NullFloat64{Float64: g.float32Exact(), Valid: true}))
		}
	case "bytes":
		n := g.r.Intn(6)
		b := make([]byte, n)
		for i := range b {
			b[i] = byte(g.r.Intn(256))
		}
		fv.SetBytes(b)
	case "array":
		if t.Kind() == reflect.Slice {
			if g.r.Chance(1, 6) {
				return // nil slice: stored as NULL, read back as nil
			}
			n := g.r.Intn(5)
			s := reflect.MakeSlice(t, n, n)
			for i := 0; i < n; i++ {
				g.fillAny(s.Index(i), 1)
			}
			fv.Set(s)
		} else {
			for i := 0; i < fv.Len(); i++ {
				g.fillAny(fv.Index(i), 1)
			}
		}
	case "composite", "json":
		g.fillAny(fv, 0)
	}
}
