package run

import (
	"encoding/json"
	"fmt"
	"os"
	"sort"
	"strings"

	"verif/kernel"
	"verif/pgsim"
	"verif/synth"
)

// BatchInfo is what the preparation step knows about the batch.
type BatchInfo struct {
	Programs []ProgInfo `json:"programs"`
	Dropped  []string   `json:"dropped"`
}

type ProgInfo struct {
	Name   string `json:"name"`
	Kind   string `json:"kind"`
	Seed   uint64 `json:"seed,omitempty"`
	Tables int    `json:"tables"`
	Funcs  int    `json:"funcs"`
	Sets   bool   `json:"generate_sets"`
}

type params struct {
	Prog   string `json:"program"`
	Ops    []Op   `json:"ops"`
	Faults int    `json:"fault_den"` // 0 = fault-free history; n = each driver operation faults with probability 1/n
}

type c05 struct {
	progs  []Program
	byName map[string]*Program
	info   BatchInfo
}

func (c *c05) ID() string { return "C05" }

func (c *c05) BlockSize(env *kernel.Env) int { return 1 }

func (c *c05) Runs(env *kernel.Env) int {
	if env.Tier == "thorough" {
		return 0
	}
	return len(c.progs) * 600
}

func (c *c05) Generate(env *kernel.Env, r *kernel.Rand, index int) any {
	p := c.progs[index%len(c.progs)]
	var infos []synth.TableInfo
	json.Unmarshal([]byte(p.Info), &infos)
	pr := params{Prog: p.Name}
	n := r.Range(1, 40)
	if r.Chance(1, 3) {
		n = r.Range(1, 6)
	}
	// swarm: per history a random subset of operation kinds is switched off
	off := map[string]bool{}
	for _, k := range []string{"update", "select", "selectmany", "selectall", "delete", "deletemany", "byfk", "delbyfk", "unique", "key", "delkey", "query", "insertmany", "checkall"} {
		if r.Chance(1, 3) {
			off[k] = true
		}
	}
	for i := 0; i < n; i++ {
		t := infos[r.Intn(len(infos))]
		if t.Frozen {
			continue
		}
		// operations this table supports
		kinds := []string{"insert", "insert", "insert", "selectall", "delete", "checkall"}
		if t.Primary {
			kinds = append(kinds, "update", "update", "select", "selectmany", "delete", "deletemany")
		} else {
			kinds = append(kinds, "insertmany", "insertmany", "insertmany", "insert")
		}
		for _, col := range t.Columns {
			if col.Kind == "fk" {
				kinds = append(kinds, "byfk", "delbyfk")
				break
			}
		}
		kinds = append(kinds, "unique") // single-row lookups are discovered at run time
		if len(t.Uniques) > 0 {
			kinds = append(kinds, "unique")
		}
		if len(t.SelectKeys) > 0 {
			kinds = append(kinds, "key", "delkey")
		}
		if len(t.Queries) > 0 {
			kinds = append(kinds, "query", "query")
		}
		k := kernel.Pick(r, kinds)
		if off[k] {
			k = "insert"
		}
		op := Op{Kind: k, Table: t.Name, Seed: r.Uint64(), Pick: r.Intn(1000), N: r.Intn(8), Arg: r.Intn(8)}
		op.Miss = r.Chance(1, 8)
		op.Commit = r.Chance(2, 3)
		pr.Ops = append(pr.Ops, op)
	}
	// transactions: in one history out of three, one to three stretches of
	// operations run inside a transaction that is committed or rolled back
	if r.Chance(1, 3) && len(pr.Ops) >= 2 {
		var ops []Op
		open := false
		for i, op := range pr.Ops {
			if !open && r.Chance(1, 4) {
				ops = append(ops, Op{Kind: "begin", Table: op.Table})
				open = true
			} else if open && r.Chance(1, 4) {
				ops = append(ops, Op{Kind: "end", Table: op.Table, Commit: r.Chance(1, 2)})
				open = false
			}
			ops = append(ops, op)
			_ = i
		}
		if open {
			ops = append(ops, Op{Kind: "end", Table: infos[0].Name, Commit: r.Chance(1, 2)})
		}
		pr.Ops = ops
	}
	pr.Ops = append(pr.Ops, Op{Kind: "checkall", Table: infos[0].Name})
	if index%3 == 2 {
		pr.Faults = kernel.Pick(r, []int{6, 12, 25})
	}
	return pr
}

var faultKinds = []pgsim.FaultKind{pgsim.ErrBeforeApply, pgsim.BadConnBefore, pgsim.RowsErrMidway, pgsim.CommitFails, pgsim.ConnLostInTx, pgsim.ErrAfterApply, pgsim.RowRejected}

func (c *c05) Execute(env *kernel.Env, raw json.RawMessage, ch *kernel.Choices) *kernel.Outcome {
	var p params
	if err := json.Unmarshal(raw, &p); err != nil {
		kernel.Harnessf("params: %v", err)
	}
	out := &kernel.Outcome{}
	prog := c.byName[p.Prog]
	if prog == nil {
		kernel.Harnessf("unknown program %s", p.Prog)
	}
	kindOf := "synth"
	for _, pi := range c.info.Programs {
		if pi.Name == p.Prog {
			kindOf = pi.Kind
		}
	}
	sig := func(clause string) string { return kindOf + "/" + p.Prog }
	db := pgsim.NewDB()
	if err := db.ExecScript(prog.CreateSQL); err != nil {
		if err.Class == "syntax" {
			kernel.Harnessf("the simulator cannot parse the schema generated for %s: %v", p.Prog, err)
		}
		out.Violation = &kernel.Violation{Property: "C05", Clause: "schema_does_not_load", Signature: sig(""), Detail: fmt.Sprintf("program %s: the generated schema is rejected: %v", p.Prog, err)}
		return out
	}
	srv := pgsim.NewServer(db)
	h := newHist(prog, p.Faults > 0, out)
	h.srv = srv
	h.sdb = srv.Open()
	defer h.sdb.Close()
	if p.Faults > 0 {
		srv.Fault = func(ev pgsim.Event) pgsim.FaultKind {
			if ch.Choose("fault?", p.Faults) != p.Faults-1 {
				return pgsim.NoFault
			}
			return faultKinds[ch.Choose("fault-kind", len(faultKinds))]
		}
	}
	for _, op := range p.Ops {
		h.exec(op)
		if h.viol != nil {
			break
		}
	}
	if h.tx != nil && h.viol == nil {
		// (a shrunk history may have lost its "end")
		func() {
			defer func() {
				if r := recover(); r != nil {
					u, ok := r.(undrivable)
					if !ok {
						panic(r)
					}
					if out.Trouble == "" {
						out.Trouble = u.msg
					}
				}
			}()
			h.end(true)
			h.checkAll()
		}()
	}
	for k, n := range srv.FaultsFired {
		if out.Faults == nil {
			out.Faults = map[string]int64{}
		}
		out.Faults[string(k)] += n
	}
	out.ProbeN("statements", db.Statements)
	out.ProbeN("resyncs_after_fault", int64(h.synced))
	if h.viol != nil {
		h.viol.Signature = sig(h.viol.Clause)
		h.viol.Detail = "program " + p.Prog + ": " + h.viol.Detail
		out.Violation = h.viol
		return out
	}
	var texts []string
	for t := range db.Texts {
		texts = append(texts, t)
	}
	sort.Strings(texts)
	for _, t := range texts {
		out.Keys = append(out.Keys, "@stmt:"+p.Prog+"|"+t)
	}
	if len(h.log) > 0 {
		out.Keys = append(out.Keys, p.Prog+"|"+strings.Join(h.log, ";"))
	}
	n := len(h.log)
	if n > 6 {
		n = 6
	}
	out.Sample = map[string]any{"program": p.Prog, "ops": len(p.Ops), "fault_den": p.Faults, "first_calls": h.log[:n]}
	return out
}

func (c *c05) Shrink(raw json.RawMessage) []json.RawMessage {
	var p params
	json.Unmarshal(raw, &p)
	var out []json.RawMessage
	for _, ops := range kernel.ShrinkList(p.Ops) {
		q := p
		q.Ops = ops
		out = append(out, kernel.MustJSON(q))
	}
	if p.Faults > 0 {
		q := p
		q.Faults = 0
		out = append(out, kernel.MustJSON(q))
	}
	return out
}

func (c *c05) Meta(env *kernel.Env) kernel.Meta {
	return kernel.Meta{
		Rule: "a run = one history of 1-40 abstract CRUD operations (insert, update, select, select many, select all, delete, delete many, by-foreign-key select/delete, unique lookups, select-key select/delete, custom query, link insert / InsertMany in a transaction with commit or rollback / delete, full cross-check; in a third of the histories stretches of operations run inside one *sql.Tx that is committed or rolled back, the model following) resolved against the live rows of a map reference model and executed through the generated functions on a fresh simulated database loaded from the generated schema; one third of the histories run with driver faults; distinct = distinct (program, call log); non-trivial = at least one call was made; by measure: distinct (function kind, table) pairs and distinct statement texts executed",
		Real: []string{"analysis + analysis/sql + generator/sql + generator/go/sqlcrud (current tree) produce schema and CRUD code", "the generated Go file, compiled unmodified", "database/sql", "x/tools/imports in place of the goimports binary"},
		Stub: []string{"PostgreSQL (pgsim: parser, typed values, constraints, referential actions, transactions, COPY, driver, fault plane)", "github.com/lib/pq (stubs/pq: array text formats, NullTime, CopyIn)"},
		Assumptions: []string{
			"pgsim follows PostgreSQL's documented behaviour and is lenient where unsure; validation functions are opaque and evaluate to true (C04)",
			"rows stay inside the value domain the emitted SQL type represents exactly (32-bit integers for Go int/int64 columns because the schema says integer, float32-exact floats for real, whole-second UTC times)",
			"a call during which an injected driver fault fired is not judged; the model is resynchronised from the database and later calls are judged normally",
			"programs come from the synthesiser's SQL profile and the hand-written corpus; the repository's own models.go fixture is excluded because its schema is not loadable (it references exercice_questionss, a link table without key, and an undeclared composite type)",
		},
		Extra: map[string]any{"batch": c.info},
	}
}

// Main is the entry point of the batch binary.
func Main(progs []Program, infoJSON string) {
	c := &c05{progs: progs, byName: map[string]*Program{}}
	for i := range progs {
		c.byName[progs[i].Name] = &progs[i]
	}
	json.Unmarshal([]byte(infoJSON), &c.info)
	if len(progs) == 0 {
		fmt.Fprintln(os.Stderr, "HARNESS-ERROR: empty batch")
		os.Exit(2)
	}
	kernel.Main(c)
}
