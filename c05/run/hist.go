package run

import (
	"database/sql"
	"encoding/json"
	"fmt"
	"reflect"
	"sort"
	"strings"

	"verif/kernel"
	"verif/pgsim"
	"verif/synth"
)

// Program is what the generated glue of one program registers.
type Program struct {
	Name      string
	CreateSQL string
	Funcs     map[string]any
	Params    map[string][]string // parameter names of the exported functions
	Types     map[string]any   // table struct zero values by Go name
	Enums     map[string][]any // enum type name -> exported constants
	Info      string           // JSON: []synth.TableInfo
	Sets      bool
}

// Op is one abstract call of a history. Picks are resolved against the live
// rows of the model at execution time (modulo their number), so that removing
// operations keeps the remaining ones meaningful.
type Op struct {
	Kind   string `json:"op"`
	Table  string `json:"table"`
	Seed   uint64 `json:"seed"`
	Pick   int    `json:"pick,omitempty"`
	N      int    `json:"n,omitempty"`
	Arg    int    `json:"arg,omitempty"`    // index of the fk / unique / key / query concerned
	Miss   bool   `json:"miss,omitempty"`   // ask for something that does not exist
	Commit bool   `json:"commit,omitempty"` // InsertMany: commit or roll back
}

type tinfo struct {
	synth.TableInfo
	typ  reflect.Type
	rows []reflect.Value // model: live rows (struct values), insertion order
	fks  []*synth.ColumnInfo
}

type hist struct {
	prog    *Program
	tables  []*tinfo
	byName  map[string]*tinfo
	srv     *pgsim.Server
	sdb     *sql.DB
	counter int64
	out     *kernel.Outcome
	viol    *kernel.Violation
	log     []string
	faulty  bool // faults enabled for this history
	synced  int
	// an open transaction: every call goes through it; txSnap is the model at BEGIN
	tx      *sql.Tx
	txSnap  [][]reflect.Value
	txErr   bool // a statement failed inside the transaction: PostgreSQL has aborted it
	txCalls int
	lastErr error // error of the last generated call
	extraHeld int
}

type violation struct{ clause, detail string }

func (h *hist) fail(clause, format string, a ...any) {
	if h.viol == nil {
		tail := h.log
		if len(tail) > 12 {
			tail = tail[len(tail)-12:]
		}
		h.viol = &kernel.Violation{Property: "C05", Clause: clause, Detail: fmt.Sprintf(format, a...) + "\nlast calls:\n  " + strings.Join(tail, "\n  ")}
	}
}

func (h *hist) fn(name string) (reflect.Value, bool) {
	f, ok := h.prog.Funcs[name]
	if !ok {
		return reflect.Value{}, false
	}
	return reflect.ValueOf(f), true
}

func (h *hist) mustFn(name string) reflect.Value {
	f, ok := h.fn(name)
	if !ok {
		panic(undrivable{fmt.Sprintf("cannot drive program %s: the generated file has no function %s", h.prog.Name, name)})
	}
	return f
}

// undrivable is the panic value of an operation the harness cannot perform on
// this tree: the operation is skipped, the history goes on, and the batch ends
// as harness trouble unless some run finds a violation of its own.
type undrivable struct{ msg string }

// call invokes a generated function; the error result (always last) is split off.
func (h *hist) call(name string, f reflect.Value, args ...reflect.Value) ([]reflect.Value, error) {
	ft := f.Type()
	in := make([]reflect.Value, len(args))
	for i, a := range args {
		var want reflect.Type
		if ft.IsVariadic() && i >= ft.NumIn()-1 {
			want = ft.In(ft.NumIn() - 1).Elem()
		} else if i < ft.NumIn() {
			want = ft.In(i)
		} else {
			kernel.Harnessf("cannot drive %s: %d arguments for %s", name, len(args), ft)
		}
		if a.Type() != want {
			if a.Type().ConvertibleTo(want) && want.Kind() != reflect.Interface {
				a = a.Convert(want)
			} else if !a.Type().AssignableTo(want) {
				kernel.Harnessf("cannot drive %s: argument %d has type %s, function wants %s", name, i, a.Type(), want)
			}
		}
		in[i] = a
	}
	if !ft.IsVariadic() && len(in) != ft.NumIn() {
		kernel.Harnessf("cannot drive %s: signature %s does not take %d arguments", name, ft, len(in))
	}
	h.out.Steps++
	outs := f.Call(in)
	var err error
	if n := len(outs); n > 0 {
		if e, ok := outs[n-1].Interface().(error); ok {
			err = e
		}
		if outs[n-1].Type().Implements(reflect.TypeOf((*error)(nil)).Elem()) {
			outs = outs[:n-1]
		}
	}
	h.lastErr = err
	if h.tx != nil {
		h.txCalls++
		if err != nil && err != sql.ErrNoRows {
			h.txErr = true
		}
	}
	// a call that has returned holds no connection (besides the open
	// transaction's): a result set left open keeps its connection out of the pool
	held := h.extraHeld // (a transaction the harness itself opened around this call)
	if h.tx != nil {
		held = 1
	}
	if n := h.sdb.Stats().InUse; n > held && h.viol == nil {
		h.fail("connection_leaked", "%s returned (err=%v) but %d connection(s) of the pool are still in use (%d expected): a result set was not closed; with a bounded pool the next call blocks for ever", name, err, n, held)
	}
	return outs, err
}

func (t *tinfo) idOf(row reflect.Value) int64 { return row.FieldByName("Id").Int() }

func (t *tinfo) find(id int64) int {
	for i, r := range t.rows {
		if t.idOf(r) == id {
			return i
		}
	}
	return -1
}

func (t *tinfo) sqlName() string {
	// only used for reports
	return t.Name
}

func newHist(p *Program, faulty bool, out *kernel.Outcome) *hist {
	h := &hist{prog: p, byName: map[string]*tinfo{}, out: out, faulty: faulty}
	var infos []synth.TableInfo
	if err := json.Unmarshal([]byte(p.Info), &infos); err != nil {
		kernel.Harnessf("program %s: bad table info: %v", p.Name, err)
	}
	for i := range infos {
		ti := &tinfo{TableInfo: infos[i]}
		z, ok := p.Types[ti.Name]
		if !ok {
			kernel.Harnessf("program %s: no Go type registered for table %s", p.Name, ti.Name)
		}
		ti.typ = reflect.TypeOf(z)
		for j := range ti.Columns {
			if ti.Columns[j].Kind == "fk" {
				ti.fks = append(ti.fks, &ti.Columns[j])
			}
			if ti.Columns[j].Kind == "date" {
				if f, ok := ti.typ.FieldByName(ti.Columns[j].Field); ok && len(f.Index) == 1 {
					if dateColumns[ti.typ] == nil {
						dateColumns[ti.typ] = map[int]bool{}
					}
					dateColumns[ti.typ][f.Index[0]] = true
				}
			}
		}
		h.tables = append(h.tables, ti)
		h.byName[ti.Name] = ti
	}
	return h
}

// ---- row construction -----------------------------------------------------

func (h *hist) inUnique(t *tinfo, field string) bool {
	for _, u := range t.Uniques {
		for _, f := range u {
			if f == field {
				return true
			}
		}
	}
	return false
}

// uniqueKey renders the values of a unique constraint for one row ("" when a
// component is NULL: NULLs never collide).
func (h *hist) uniqueKey(t *tinfo, u []string, row reflect.Value) string {
	var parts []string
	for _, f := range u {
		fv := row.FieldByName(f)
		c := t.Column(f)
		if c != nil && c.Kind == "fk" {
			id, valid := fkGet(fv)
			if !valid {
				return ""
			}
			parts = append(parts, fmt.Sprint(id))
			continue
		}
		parts = append(parts, show(fv))
	}
	return strings.Join(parts, "\x00")
}

func (h *hist) violatesUnique(t *tinfo, row reflect.Value, skip int) bool {
	for _, u := range t.Uniques {
		k := h.uniqueKey(t, u, row)
		if k == "" {
			continue
		}
		for i, r := range t.rows {
			if i != skip && h.uniqueKey(t, u, r) == k {
				return true
			}
		}
	}
	return false
}

// newRow builds a constraint-satisfying row for table t. It may insert
// parent rows first (ensure). ok=false when no such row can be built.
func (h *hist) newRow(t *tinfo, g *gen, keepID int64, skip int, depth int) (reflect.Value, bool) {
	for attempt := 0; attempt < 8; attempt++ {
		row := reflect.New(t.typ).Elem()
		if t.Primary {
			row.FieldByName("Id").SetInt(keepID)
		}
		okRow := true
		for i := range t.Columns {
			c := &t.Columns[i]
			fv := row.FieldByName(c.Field)
			if !fv.IsValid() {
				kernel.Harnessf("program %s: struct %s has no field %s", h.prog.Name, t.Name, c.Field)
			}
			if c.Kind == "fk" {
				target := h.byName[c.FK]
				if c.Nullable && g.r.Chance(1, 3) {
					fkSet(fv, 0, false)
					continue
				}
				if len(target.rows) == 0 || (attempt > 2 && g.r.Chance(1, 2)) {
					if depth > 3 || !h.insertPrimary(target, g, depth+1) {
						if c.Nullable {
							fkSet(fv, 0, false)
							continue
						}
						okRow = false
						break
					}
				}
				if h.viol != nil {
					return row, false
				}
				pr := target.rows[g.r.Intn(len(target.rows))]
				if attempt > 2 {
					pr = target.rows[len(target.rows)-1] // the freshly inserted parent
				}
				fkSet(fv, target.idOf(pr), true)
				continue
			}
			unique := h.inUnique(t, c.Field) && (c.Kind == "string" || (c.Kind == "int" && fv.Kind() != reflect.Uint8))
			g.fillColumn(fv, c, unique)
		}
		if okRow && !h.violatesUnique(t, row, skip) {
			return row, true
		}
		if h.viol != nil {
			return row, false
		}
	}
	return reflect.Value{}, false
}

// ---- the operations -------------------------------------------------------

func (h *hist) db() reflect.Value {
	if h.tx != nil {
		return reflect.ValueOf(h.tx)
	}
	return reflect.ValueOf(h.sdb)
}

// begin opens a transaction through which every following call is made.
func (h *hist) begin() {
	if h.tx != nil {
		return
	}
	tx, err := h.sdb.Begin()
	if err != nil {
		if h.faultedAny() {
			return
		}
		kernel.Harnessf("begin: %v", err)
	}
	h.tx, h.txErr, h.txCalls = tx, false, 0
	h.txSnap = make([][]reflect.Value, len(h.tables))
	for i, t := range h.tables {
		for _, r := range t.rows {
			h.txSnap[i] = append(h.txSnap[i], own(t, r))
		}
	}
	h.note("BEGIN")
}

// end closes the open transaction; after a rollback the model is the one of BEGIN.
func (h *hist) end(commit bool) {
	if h.tx == nil {
		return
	}
	tx := h.tx
	h.tx = nil
	restore := func() {
		for i, t := range h.tables {
			t.rows = h.txSnap[i]
		}
		h.txSnap = nil
	}
	if h.txErr {
		// a statement was refused inside the transaction (as the model predicted):
		// the transaction is lost whatever is asked now
		commit = false
	}
	if commit {
		err := tx.Commit()
		h.note("COMMIT -> %v", err)
		if h.faultedAny() {
			return
		}
		if err != nil {
			h.judgeErr("commit", err)
			return
		}
		h.txSnap = nil
		h.out.Probe("tx_committed")
		h.out.ProbeN("calls_inside_tx", int64(h.txCalls))
		h.out.Keys = append(h.out.Keys, fmt.Sprintf("@call:tx-commit/%d", min(h.txCalls, 6)))
		return
	}
	err := tx.Rollback()
	h.note("ROLLBACK -> %v", err)
	if h.faultedAny() {
		return
	}
	restore()
	h.out.Probe("tx_rolled_back")
	if h.txErr {
		h.out.Probe("tx_aborted_by_predicted_refusal")
	}
	h.out.ProbeN("calls_inside_tx", int64(h.txCalls))
	h.out.Keys = append(h.out.Keys, fmt.Sprintf("@call:tx-rollback/%d/%v", min(h.txCalls, 6), h.txErr))
}

func (h *hist) judgeErr(what string, err error) bool {
	if err == nil {
		return true
	}
	var pe *pgsim.Error
	if asPgErr(err, &pe) && pe.Class == "syntax" {
		kernel.Harnessf("the simulator cannot parse a statement of %s (%s): %v", h.prog.Name, what, err)
	}
	h.fail("sql_error", "%s failed: %v", what, err)
	return false
}

func asPgErr(err error, target **pgsim.Error) bool {
	for err != nil {
		if pe, ok := err.(*pgsim.Error); ok {
			*target = pe
			return true
		}
		u, ok := err.(interface{ Unwrap() error })
		if !ok {
			return false
		}
		err = u.Unwrap()
	}
	return false
}

func (h *hist) note(format string, a ...any) {
	h.log = append(h.log, fmt.Sprintf(format, a...))
	if len(h.log) > 64 {
		h.log = h.log[len(h.log)-32:]
	}
}

// faulted reports (and consumes) whether a driver fault fired during the
// call just made: such a call is not judged, the model is resynchronised.
func (h *hist) faulted() bool { return h.faultedErr(h.lastErr) }

var errSomeFault = fmt.Errorf("a fault fired")

// faultedAny is for the harness' own Begin / Commit / Rollback: whatever fired, the step is abandoned.
func (h *hist) faultedAny() bool { return h.faultedErr(errSomeFault) }

// faultedErr: a driver fault that fired during a call excuses an error, and
// only that: the call may fail, it may not return wrong data. A call that
// returns no error although a fault fired (a retried connection, or an error
// that was swallowed) is judged like any other.
func (h *hist) faultedErr(err error) bool {
	if h.srv.FaultedSinceReset() && err == nil && h.tx == nil {
		h.srv.ResetFaultFlag()
		h.out.Probe("fault_without_error:call_judged")
		return false
	}
	if h.srv.FaultedSinceReset() {
		h.srv.ResetFaultFlag()
		if h.tx != nil {
			// the state of the transaction is unknown: give it up
			h.tx.Rollback()
			h.tx, h.txSnap = nil, nil
			h.srv.ResetFaultFlag()
		}
		h.resync()
		return true
	}
	return false
}

func (h *hist) insertPrimary(t *tinfo, g *gen, depth int) bool {
	before := h.synced
	row, ok := h.newRow(t, g, 0, -1, depth)
	if !ok || h.synced != before {
		return false
	}
	name := t.Name + ".Insert"
	outs, err := h.call(name, h.mustFn(name), row, h.db())
	h.note("%s(%s) -> err=%v", name, show(row), err)
	if h.faulted() {
		return false
	}
	if !h.judgeErr(name, err) {
		return false
	}
	got := outs[0]
	id := t.idOf(got)
	if id <= 0 || t.find(id) >= 0 {
		h.fail("insert_returns_wrong_row", "%s returned id %d (must be a fresh positive id)", name, id)
		return false
	}
	row.FieldByName("Id").SetInt(id)
	if !equalish(row, got) {
		h.fail("insert_returns_wrong_row", "%s: returned row differs from the inserted one\n  inserted: %s\n  returned: %s", name, show(row), show(got))
		return false
	}
	t.rows = append(t.rows, row)
	h.out.Keys = append(h.out.Keys, "@call:insert/"+t.Name)
	return true
}

// own copies a row into an addressable value owned by the model.
func own(t *tinfo, v reflect.Value) reflect.Value {
	c := reflect.New(t.typ).Elem()
	c.Set(v)
	return c
}

func (h *hist) pick(t *tinfo, n int) (reflect.Value, int, bool) {
	if len(t.rows) == 0 {
		return reflect.Value{}, -1, false
	}
	i := n % len(t.rows)
	if i < 0 {
		i = -i
	}
	return t.rows[i], i, true
}

func idValue(t *tinfo, id int64) reflect.Value {
	f, _ := t.typ.FieldByName("Id")
	v := reflect.New(f.Type).Elem()
	v.SetInt(id)
	return v
}

// asMap turns a returned Ts (map[ID]T) into id -> row.
func asMap(v reflect.Value) map[int64]reflect.Value {
	out := map[int64]reflect.Value{}
	if v.Kind() != reflect.Map {
		return out
	}
	it := v.MapRange()
	for it.Next() {
		out[it.Key().Int()] = it.Value()
	}
	return out
}

func (h *hist) compareSet(what string, t *tinfo, got reflect.Value, want []reflect.Value) bool {
	if t.Primary {
		m := asMap(got)
		if len(m) != len(want) {
			h.fail("select_returns_wrong_rows", "%s returned %d rows, the model has %d matching rows", what, len(m), len(want))
			return false
		}
		for _, w := range want {
			g, ok := m[t.idOf(w)]
			if !ok {
				h.fail("select_returns_wrong_rows", "%s: row with id %d is missing from the result", what, t.idOf(w))
				return false
			}
			if !equalish(w, g) {
				h.fail("select_returns_wrong_rows", "%s: row %d differs\n  model:    %s\n  returned: %s", what, t.idOf(w), show(w), show(g))
				return false
			}
			if g.FieldByName("Id").Int() != t.idOf(w) {
				h.fail("select_returns_wrong_rows", "%s: map key and row id disagree", what)
				return false
			}
		}
		return true
	}
	// link tables: multiset
	if got.Kind() != reflect.Slice {
		kernel.Harnessf("cannot drive %s: result is %s, expected a slice", what, got.Type())
	}
	if got.Len() != len(want) {
		h.fail("select_returns_wrong_rows", "%s returned %d rows, the model has %d matching rows", what, got.Len(), len(want))
		return false
	}
	used := make([]bool, len(want))
	for i := 0; i < got.Len(); i++ {
		g := got.Index(i)
		found := false
		for j, w := range want {
			if !used[j] && equalish(w, g) {
				used[j] = true
				found = true
				break
			}
		}
		if !found {
			h.fail("select_returns_wrong_rows", "%s returned a row the model does not have: %s", what, show(g))
			return false
		}
	}
	return true
}

// references lists (table, fk column) pairs pointing at t.
func (h *hist) references(t *tinfo) []struct {
	tab *tinfo
	col *synth.ColumnInfo
} {
	var out []struct {
		tab *tinfo
		col *synth.ColumnInfo
	}
	for _, o := range h.tables {
		for _, c := range o.fks {
			if c.FK == t.Name {
				out = append(out, struct {
					tab *tinfo
					col *synth.ColumnInfo
				}{o, c})
			}
		}
	}
	return out
}

// planDelete computes the effect of deleting rows of t: the closure over
// ON DELETE CASCADE references (gone), the fields to null (SET NULL references
// from surviving rows) and whether a surviving row still references a deleted
// one through a reference without action (PostgreSQL then refuses the whole
// statement; the check runs after the cascades).
func (h *hist) planDelete(t *tinfo, victims []int) (gone map[*tinfo]map[int]bool, nulled []func(), refused bool) {
	gone = map[*tinfo]map[int]bool{}
	var visit func(t *tinfo, idx int)
	visit = func(t *tinfo, idx int) {
		if gone[t] == nil {
			gone[t] = map[int]bool{}
		}
		if gone[t][idx] {
			return
		}
		gone[t][idx] = true
		if !t.Primary {
			return
		}
		id := t.idOf(t.rows[idx])
		for _, ref := range h.references(t) {
			if ref.col.OnDelete != "CASCADE" {
				continue
			}
			for j, r := range ref.tab.rows {
				if rid, valid := fkGet(r.FieldByName(ref.col.Field)); valid && rid == id {
					visit(ref.tab, j)
				}
			}
		}
	}
	for _, v := range victims {
		visit(t, v)
	}
	for tt, idxs := range gone {
		if !tt.Primary {
			continue
		}
		for idx := range idxs {
			id := tt.idOf(tt.rows[idx])
			for _, ref := range h.references(tt) {
				if ref.col.OnDelete == "CASCADE" {
					continue
				}
				for j, r := range ref.tab.rows {
					rid, valid := fkGet(r.FieldByName(ref.col.Field))
					if !valid || rid != id || (gone[ref.tab] != nil && gone[ref.tab][j]) {
						continue
					}
					if ref.col.OnDelete == "SET NULL" {
						row, field := r, ref.col.Field
						nulled = append(nulled, func() { fkSet(row.FieldByName(field), 0, false) })
					} else {
						refused = true
					}
				}
			}
		}
	}
	return gone, nulled, refused
}

func (h *hist) applyDelete(gone map[*tinfo]map[int]bool, nulled []func()) {
	for _, f := range nulled {
		f()
	}
	for t, idxs := range gone {
		var keep []reflect.Value
		for i, r := range t.rows {
			if !idxs[i] {
				keep = append(keep, r)
			}
		}
		t.rows = keep
	}
}

// resync rebuilds the model from the simulator's ground truth by reading
// every table back through the generated SelectAll (with faults suspended).
func (h *hist) resync() {
	saved := h.srv.Fault
	h.srv.Fault = nil
	defer func() { h.srv.Fault = saved }()
	h.synced++
	for _, t := range h.tables {
		name := "SelectAll" + t.Name + "s"
		outs, err := h.call(name, h.mustFn(name), h.db())
		if err != nil {
			h.judgeErr(name+" (resynchronisation)", err)
			return
		}
		t.rows = nil
		if t.Primary {
			m := asMap(outs[0])
			var ids []int64
			for id := range m {
				ids = append(ids, id)
			}
			sort.Slice(ids, func(i, j int) bool { return ids[i] < ids[j] })
			for _, id := range ids {
				t.rows = append(t.rows, own(t, m[id]))
			}
		} else {
			for i := 0; i < outs[0].Len(); i++ {
				t.rows = append(t.rows, own(t, outs[0].Index(i)))
			}
		}
	}
}

// checkAll is the cross-invariant: every table read back in full equals the model.
// checkOne reads one table back in full and compares it with the model.
func (h *hist) checkOne(t *tinfo) {
	name := "SelectAll" + t.Name + "s"
	outs, err := h.call(name, h.mustFn(name), h.db())
	h.note("%s() -> err=%v", name, err)
	if h.faulted() || !h.judgeErr(name, err) {
		return
	}
	h.compareSet(name, t, outs[0], t.rows)
}

func (h *hist) checkAll() {
	for _, t := range h.tables {
		if h.viol != nil {
			return
		}
		name := "SelectAll" + t.Name + "s"
		outs, err := h.call(name, h.mustFn(name), h.db())
		h.note("%s() -> err=%v", name, err)
		if h.faulted() {
			return
		}
		if !h.judgeErr(name, err) {
			return
		}
		h.compareSet(name, t, outs[0], t.rows)
	}
}
