package run

import (
	"verif/pgsim"
	"database/sql"
	"fmt"
	"reflect"
	"sort"
	"strings"

	"verif/kernel"
	"verif/synth"
)

func (h *hist) gen(op Op) *gen {
	return &gen{r: kernel.NewRand(op.Seed), counter: &h.counter, prog: h.prog}
}

// exec runs one abstract operation; operations that do not apply to the
// current state (no live row to pick, function not generated for this table)
// are skipped and counted.
func (h *hist) exec(op Op) {
	t := h.byName[op.Table]
	if t == nil {
		return
	}
	g := h.gen(op)
	skip := func(why string) { h.out.Probe("skipped:" + why) }
	defer func() {
		if r := recover(); r != nil {
			u, ok := r.(undrivable)
			if !ok {
				panic(r)
			}
			h.out.Probe("skipped:undrivable")
			if h.out.Trouble == "" {
				h.out.Trouble = u.msg
			}
		}
		if h.tx != nil && h.txErr && h.viol == nil {
			h.end(false)
		}
	}()
	switch op.Kind {
	case "begin":
		h.begin()
	case "end":
		h.end(op.Commit)
	case "checkall":
		h.checkAll()
	case "insert":
		if op.Miss && len(t.Uniques) > 0 && len(t.rows) > 0 {
			h.insertDuplicate(t, g, op)
			return
		}
		if op.Miss && !t.Primary && len(t.Uniques) == 0 && len(t.rows) > 0 {
			// a link table without unique key may hold the same link twice
			row := own(t, t.rows[op.Pick%len(t.rows)])
			name := t.Name + ".Insert"
			_, err := h.call(name, h.mustFn(name), row, h.db())
			h.note("%s(%s) -> err=%v (a second copy of a stored link)", name, show(row), err)
			if h.faulted() || !h.judgeErr(name, err) {
				return
			}
			t.rows = append(t.rows, row)
			h.out.Keys = append(h.out.Keys, "@call:insert-same-link-twice/"+t.Name)
			return
		}
		if t.Primary {
			if !h.insertPrimary(t, g, 0) && h.viol == nil {
				skip("no constraint-satisfying row")
			}
		} else {
			h.insertLink(t, g)
		}
	case "update":
		h.update(t, g, op)
	case "select":
		h.selectOne(t, op)
	case "selectmany":
		h.selectMany(t, g, op)
	case "selectall":
		name := "SelectAll" + t.Name + "s"
		outs, err := h.call(name, h.mustFn(name), h.db())
		h.note("%s() -> err=%v", name, err)
		if h.faulted() || !h.judgeErr(name, err) {
			return
		}
		if h.compareSet(name, t, outs[0], t.rows) {
			h.checkHelpers(t, outs[0])
		}
		h.out.Keys = append(h.out.Keys, "@call:selectall/"+t.Name)
	case "delete":
		if t.Primary {
			h.deleteByID(t, op)
		} else {
			h.deleteLink(t, op)
		}
	case "deletemany":
		h.deleteMany(t, g, op)
	case "byfk":
		h.byForeignKey(t, g, op, false)
	case "delbyfk":
		h.byForeignKey(t, g, op, true)
	case "unique":
		h.byUnique(t, g, op)
	case "key":
		h.byKey(t, g, op, false)
	case "delkey":
		h.byKey(t, g, op, true)
	case "query":
		h.customQuery(t, g, op)
	case "insertmany":
		h.insertMany(t, g, op)
	default:
		kernel.Harnessf("unknown op %q", op.Kind)
	}
}

func (h *hist) update(t *tinfo, g *gen, op Op) {
	if !t.Primary {
		return
	}
	if op.Miss {
		// an update of a row that does not exist (never inserted, or deleted
		// since) changes nothing and says so
		id := int64(1<<30) + int64(op.Pick%1000)
		before := h.synced
		row, ok := h.newRow(t, g, id, -1, 0)
		if !ok || h.synced != before {
			return
		}
		name := t.Name + ".Update"
		_, err := h.call(name, h.mustFn(name), row, h.db())
		h.note("%s(%s) -> err=%v (no such row)", name, show(row), err)
		if h.faulted() {
			return
		}
		if err != sql.ErrNoRows {
			h.fail("update_of_missing_row", "%s of id %d: no such row, expected sql.ErrNoRows, got %v", name, id, err)
		}
		h.out.Keys = append(h.out.Keys, "@call:update-miss/"+t.Name)
		return
	}
	old, idx, ok := h.pick(t, op.Pick)
	if !ok {
		h.out.Probe("skipped:no live row")
		return
	}
	before := h.synced
	row, ok := h.newRow(t, g, t.idOf(old), idx, 0)
	if !ok || h.synced != before {
		// (a fault while inserting a parent resynchronised the model: the
		// row was built against a stale state, give the operation up)
		if h.viol == nil {
			h.out.Probe("skipped:no constraint-satisfying row")
		}
		return
	}
	name := t.Name + ".Update"
	outs, err := h.call(name, h.mustFn(name), row, h.db())
	h.note("%s(%s) -> err=%v", name, show(row), err)
	if h.faulted() || !h.judgeErr(name, err) {
		return
	}
	if !equalish(row, outs[0]) {
		h.fail("update_returns_wrong_row", "%s: returned row differs from the new version\n  sent:     %s\n  returned: %s", name, show(row), show(outs[0]))
		return
	}
	// the parents may have been inserted by newRow: idx is still valid (rows are only appended)
	t.rows[t.find(t.idOf(old))] = row
	h.out.Keys = append(h.out.Keys, "@call:update/"+t.Name)
}

func (h *hist) selectOne(t *tinfo, op Op) {
	if !t.Primary {
		return
	}
	name := "Select" + t.Name
	f := h.mustFn(name)
	if op.Miss || len(t.rows) == 0 {
		id := int64(1<<30) + int64(op.Pick%1000)
		_, err := h.call(name, f, h.db(), idValue(t, id))
		h.note("%s(%d) -> err=%v", name, id, err)
		if h.faulted() {
			return
		}
		if err != sql.ErrNoRows {
			h.fail("select_of_missing_row", "%s(%d): no such row, expected sql.ErrNoRows, got %v", name, id, err)
		}
		h.out.Keys = append(h.out.Keys, "@call:selectmiss/"+t.Name)
		return
	}
	want, _, _ := h.pick(t, op.Pick)
	outs, err := h.call(name, f, h.db(), idValue(t, t.idOf(want)))
	h.note("%s(%d) -> err=%v", name, t.idOf(want), err)
	if h.faulted() || !h.judgeErr(name, err) {
		return
	}
	if !equalish(want, outs[0]) {
		h.fail("select_returns_wrong_rows", "%s(%d)\n  model:    %s\n  returned: %s", name, t.idOf(want), show(want), show(outs[0]))
	}
	h.out.Keys = append(h.out.Keys, "@call:select/"+t.Name)
}

// pickIDs draws ids: live ones and (sometimes) unknown ones.
func (h *hist) pickSome(t *tinfo, g *gen, n int) ([]reflect.Value, []int) {
	var rows []reflect.Value
	var idx []int
	seen := map[int]bool{}
	for i := 0; i < n && len(t.rows) > 0; i++ {
		j := g.r.Intn(len(t.rows))
		if !seen[j] {
			seen[j] = true
			rows = append(rows, t.rows[j])
			idx = append(idx, j)
		}
	}
	return rows, idx
}

func (h *hist) selectMany(t *tinfo, g *gen, op Op) {
	if !t.Primary {
		return
	}
	name := "Select" + t.Name + "s"
	want, _ := h.pickSome(t, g, op.N)
	args := []reflect.Value{h.db()}
	for _, w := range want {
		args = append(args, idValue(t, t.idOf(w)))
	}
	if g.r.Chance(1, 3) {
		args = append(args, idValue(t, 1<<30+7)) // an id nobody has
	}
	if g.r.Chance(1, 4) && len(want) > 0 {
		args = append(args, idValue(t, t.idOf(want[0]))) // duplicate id
	}
	outs, err := h.call(name, h.mustFn(name), args...)
	h.note("%s(%d ids) -> err=%v", name, len(args)-1, err)
	if h.faulted() || !h.judgeErr(name, err) {
		return
	}
	h.compareSet(name, t, outs[0], want)
	h.out.Keys = append(h.out.Keys, "@call:selectmany/"+t.Name)
}

func (h *hist) deleteByID(t *tinfo, op Op) {
	name := "Delete" + t.Name + "ById"
	f := h.mustFn(name)
	if op.Miss || len(t.rows) == 0 {
		id := int64(1<<30) + int64(op.Pick%1000)
		_, err := h.call(name, f, h.db(), idValue(t, id))
		h.note("%s(%d) -> err=%v", name, id, err)
		if h.faulted() {
			return
		}
		if err != sql.ErrNoRows {
			h.fail("delete_of_missing_row", "%s(%d): no such row, expected sql.ErrNoRows, got %v", name, id, err)
		}
		return
	}
	want, idx, _ := h.pick(t, op.Pick)
	gone, nulled, refused := h.planDelete(t, []int{idx})
	outs, err := h.call(name, f, h.db(), idValue(t, t.idOf(want)))
	h.note("%s(%d) -> err=%v (model: refused=%v)", name, t.idOf(want), err, refused)
	if h.faulted() {
		return
	}
	if refused {
		if err == nil {
			h.fail("delete_ignores_references", "%s(%d) succeeded although a row without ON DELETE action still references it", name, t.idOf(want))
		}
		h.out.Keys = append(h.out.Keys, "@call:delete-refused/"+t.Name)
		return
	}
	if !h.judgeErr(name, err) {
		return
	}
	if !equalish(want, outs[0]) {
		h.fail("delete_returns_wrong_row", "%s(%d)\n  model:    %s\n  returned: %s", name, t.idOf(want), show(want), show(outs[0]))
		return
	}
	h.applyDelete(gone, nulled)
	kind := "delete"
	if len(gone) > 1 {
		kind = "delete-cascade"
	}
	if len(nulled) > 0 {
		kind = "delete-setnull"
	}
	h.out.Keys = append(h.out.Keys, "@call:"+kind+"/"+t.Name)
}

func intsOf(v reflect.Value) []int64 {
	var out []int64
	for i := 0; i < v.Len(); i++ {
		out = append(out, v.Index(i).Int())
	}
	return out
}

func sameIDs(got []int64, want []int64) bool {
	if len(got) != len(want) {
		return false
	}
	m := map[int64]int{}
	for _, g := range got {
		m[g]++
	}
	for _, w := range want {
		m[w]--
	}
	for _, c := range m {
		if c != 0 {
			return false
		}
	}
	return true
}

func (h *hist) deleteMany(t *tinfo, g *gen, op Op) {
	if !t.Primary {
		return
	}
	name := "Delete" + t.Name + "sByIDs"
	want, idx := h.pickSome(t, g, op.N)
	args := []reflect.Value{h.db()}
	var ids []int64
	for _, w := range want {
		args = append(args, idValue(t, t.idOf(w)))
		ids = append(ids, t.idOf(w))
	}
	if g.r.Chance(1, 3) {
		args = append(args, idValue(t, 1<<30+9))
	}
	gone, nulled, refused := h.planDelete(t, idx)
	outs, err := h.call(name, h.mustFn(name), args...)
	h.note("%s(%v) -> err=%v (model: refused=%v)", name, ids, err, refused)
	if h.faulted() {
		return
	}
	if refused {
		if err == nil {
			h.fail("delete_ignores_references", "%s(%v) succeeded although a row without ON DELETE action still references one of them", name, ids)
		}
		return
	}
	if !h.judgeErr(name, err) {
		return
	}
	if !sameIDs(intsOf(outs[0]), ids) {
		h.fail("delete_returns_wrong_row", "%s(%v) returned ids %v", name, ids, intsOf(outs[0]))
		return
	}
	h.applyDelete(gone, nulled)
	h.out.Keys = append(h.out.Keys, "@call:deletemany/"+t.Name)
}

// keyArg converts a field value to the parameter type of a by-key function
// (nullable wrappers are unwrapped to the id they hold).
func keyArg(fv reflect.Value, want reflect.Type) (reflect.Value, bool) {
	if fv.Type() == want || (fv.Type().ConvertibleTo(want) && fv.Kind() != reflect.Struct) {
		return fv.Convert(want), true
	}
	if fv.Kind() == reflect.Struct {
		id, valid := fkGet(fv)
		if !valid {
			return reflect.Value{}, false
		}
		v := reflect.New(want).Elem()
		if v.CanInt() {
			v.SetInt(id)
			return v, true
		}
	}
	return reflect.Value{}, false
}

func (h *hist) byForeignKey(t *tinfo, g *gen, op Op, del bool) {
	if len(t.fks) == 0 {
		h.out.Probe("skipped:no foreign key")
		return
	}
	c := t.fks[op.Arg%len(t.fks)]
	verb := "Select"
	if del {
		verb = "Delete"
	}
	name := verb + t.Name + "sBy" + c.Field + "s"
	f, ok := h.fn(name)
	if !ok {
		panic(undrivable{fmt.Sprintf("cannot drive program %s: the generated file has no function %s", h.prog.Name, name)})
	}
	target := h.byName[c.FK]
	// keys: ids of some parents (referenced or not)
	parents, _ := h.pickSome(target, g, 1+op.N%3)
	keyType := f.Type().In(f.Type().NumIn() - 1).Elem()
	args := []reflect.Value{h.db()}
	keys := map[int64]bool{}
	for _, p := range parents {
		k := reflect.New(keyType).Elem()
		k.SetInt(target.idOf(p))
		args = append(args, k)
		keys[target.idOf(p)] = true
	}
	var want []reflect.Value
	var idx []int
	for i, r := range t.rows {
		if id, valid := fkGet(r.FieldByName(c.Field)); valid && keys[id] {
			want = append(want, r)
			idx = append(idx, i)
		}
	}
	var gone map[*tinfo]map[int]bool
	var nulled []func()
	refused := false
	if del {
		gone, nulled, refused = h.planDelete(t, idx)
	}
	outs, err := h.call(name, f, args...)
	h.note("%s(%d keys) -> err=%v", name, len(keys), err)
	if h.faulted() {
		return
	}
	if del && refused {
		if err == nil {
			h.fail("delete_ignores_references", "%s succeeded although a row without ON DELETE action still references a deleted row", name)
		}
		return
	}
	if !h.judgeErr(name, err) {
		return
	}
	if del && t.Primary {
		var ids []int64
		for _, w := range want {
			ids = append(ids, t.idOf(w))
		}
		if !sameIDs(intsOf(outs[0]), ids) {
			h.fail("delete_returns_wrong_row", "%s returned ids %v, the model deletes %v", name, intsOf(outs[0]), ids)
			return
		}
	} else if !h.compareSet(name, t, outs[0], want) {
		return
	}
	if del {
		h.applyDelete(gone, nulled)
	}
	h.out.Keys = append(h.out.Keys, "@call:"+strings.ToLower(verb)+"byfk/"+t.Name+"."+c.Field)
}

// segment splits "AAndBAndC" into known field names.
func segment(rest string, fields map[string]bool) []string {
	if rest == "" {
		return []string{}
	}
	for f := range fields {
		if rest == f {
			return []string{f}
		}
	}
	// try every field as the first component (longest first for determinism)
	var names []string
	for f := range fields {
		names = append(names, f)
	}
	sort.Slice(names, func(i, j int) bool {
		if len(names[i]) != len(names[j]) {
			return len(names[i]) > len(names[j])
		}
		return names[i] < names[j]
	})
	for _, f := range names {
		if strings.HasPrefix(rest, f+"And") {
			if tail := segment(rest[len(f)+3:], fields); tail != nil {
				return append([]string{f}, tail...)
			}
		}
	}
	return nil
}

// lookups discovers every generated single-row lookup Select<T>By<A>[And<B>..]
// (result: item, found, err) of a table, whatever the harness expects to exist.
func (h *hist) lookups(t *tinfo) (names []string, fields [][]string) {
	cols := map[string]bool{"Id": t.Primary}
	for _, c := range t.Columns {
		cols[c.Field] = true
	}
	prefix := "Select" + t.Name + "By"
	var all []string
	for n := range h.prog.Funcs {
		all = append(all, n)
	}
	sort.Strings(all)
	for _, n := range all {
		if !strings.HasPrefix(n, prefix) {
			continue
		}
		f := reflect.TypeOf(h.prog.Funcs[n])
		if f.Kind() != reflect.Func || f.NumOut() != 3 || f.Out(1).Kind() != reflect.Bool {
			continue
		}
		fs := segment(strings.TrimPrefix(n, prefix), cols)
		if fs == nil || len(fs) != f.NumIn()-1 {
			continue
		}
		names = append(names, n)
		fields = append(fields, fs)
	}
	return names, fields
}

func (h *hist) byUnique(t *tinfo, g *gen, op Op) {
	names, fieldSets := h.lookups(t)
	if len(names) == 0 {
		h.out.Probe("skipped:no single-row lookup generated")
		return
	}
	k := op.Arg % len(names)
	name, u := names[k], fieldSets[k]
	f := h.mustFn(name)
	row, _, ok := h.pick(t, op.Pick)
	if !ok {
		h.out.Probe("skipped:no live row")
		return
	}
	for _, fld := range u {
		if c := t.Column(fld); c != nil && c.Kind == "fk" {
			if _, valid := fkGet(row.FieldByName(fld)); !valid {
				h.out.Probe("skipped:null key")
				return
			}
		}
	}
	args := []reflect.Value{h.db()}
	for i, fld := range u {
		a, ok := keyArg(row.FieldByName(fld), f.Type().In(1+i))
		if !ok {
			h.out.Probe("skipped:null key")
			return
		}
		args = append(args, a)
	}
	// the rows of the model carrying this key
	var matching []reflect.Value
	for _, r := range t.rows {
		same := true
		for _, fld := range u {
			if !equalish(r.FieldByName(fld), row.FieldByName(fld)) {
				same = false
			}
		}
		if same {
			matching = append(matching, r)
		}
	}
	wantFound := true
	if op.Miss {
		// perturb the first component so that nothing matches
		a := args[1]
		n := reflect.New(a.Type()).Elem()
		switch {
		case a.CanInt() || a.CanUint():
			// a value of the column's own range that no live row carries
			okv := false
			for cand := int64(1); cand < 400 && !okv; cand++ {
				setInt(n, 32000-cand)
				if a.Kind() == reflect.Uint8 || a.Kind() == reflect.Int8 {
					setInt(n, 127-cand%120)
				}
				okv = true
				for _, r := range t.rows {
					if fv := r.FieldByName(u[0]); fv.Type() == n.Type() && equalish(fv, n) {
						okv = false
					}
				}
			}
			if !okv {
				h.out.Probe("skipped:no free key value")
				return
			}
		case a.Kind() == reflect.String:
			n.SetString("no such value \x01")
		default:
			return
		}
		args[1] = n
		wantFound = false
		matching = nil
	}
	outs, err := h.call(name, f, args...)
	h.note("%s(...) -> err=%v", name, err)
	if h.faulted() || !h.judgeErr(name, err) {
		return
	}
	if len(matching) > 1 {
		h.fail("unique_lookup_wrong", "%s is a single-row lookup, but the schema lets %d rows share the key (%s): it cannot return exactly the matching rows", name, len(matching), strings.Join(u, ", "))
		return
	}
	found := outs[1].Bool()
	if found != wantFound {
		h.fail("unique_lookup_wrong", "%s: found=%v, the model says %v", name, found, wantFound)
		return
	}
	if found && !equalish(row, outs[0]) {
		h.fail("unique_lookup_wrong", "%s\n  model:    %s\n  returned: %s", name, show(row), show(outs[0]))
		return
	}
	h.out.Keys = append(h.out.Keys, "@call:unique/"+t.Name+"."+strings.Join(u, "+"))
}

// checkHelpers exercises the in-memory helpers of a collection returned by
// SelectAll<T>s: IDs() and the By<F>() groupings must not lose rows.
func (h *hist) checkHelpers(t *tinfo, coll reflect.Value) {
	n := coll.Len()
	prefix := t.Name + "s."
	var all []string
	for name := range h.prog.Funcs {
		if strings.HasPrefix(name, prefix) {
			all = append(all, name)
		}
	}
	sort.Strings(all)
	for _, name := range all {
		f := reflect.ValueOf(h.prog.Funcs[name])
		if f.Type().NumIn() != 1 || f.Type().NumOut() != 1 || !coll.Type().AssignableTo(f.Type().In(0)) {
			continue
		}
		res := f.Call([]reflect.Value{coll})[0]
		h.out.Steps++
		method := strings.TrimPrefix(name, prefix)
		switch {
		case res.Kind() == reflect.Slice:
			if res.Len() != n {
				h.fail("collection_helper_loses_rows", "%s() returned %d entries for a collection of %d rows", name, res.Len(), n)
				return
			}
		case res.Kind() == reflect.Map && strings.HasPrefix(method, "By"):
			total := 0
			it := res.MapRange()
			for it.Next() {
				v := it.Value()
				if v.Kind() == reflect.Map || v.Kind() == reflect.Slice {
					total += v.Len()
				} else {
					total++
				}
			}
			if total != n {
				h.fail("collection_helper_loses_rows", "%s() groups %d rows, the collection has %d: rows sharing a key collapse", name, total, n)
				return
			}
		}
		h.out.Keys = append(h.out.Keys, "@call:helper/"+name)
	}
}

func (h *hist) byKey(t *tinfo, g *gen, op Op, del bool) {
	if len(t.SelectKeys) == 0 {
		h.out.Probe("skipped:no select key")
		return
	}
	k := t.SelectKeys[op.Arg%len(t.SelectKeys)]
	verb := "Select"
	if del {
		verb = "Delete"
	}
	name := verb + t.Name + "sBy" + strings.Join(k, "And")
	f := h.mustFn(name)
	row, _, ok := h.pick(t, op.Pick)
	if !ok {
		h.out.Probe("skipped:no live row")
		return
	}
	args := []reflect.Value{h.db()}
	for i, fld := range k {
		a, ok := keyArg(row.FieldByName(fld), f.Type().In(1+i))
		if !ok {
			h.out.Probe("skipped:null key")
			return
		}
		args = append(args, a)
	}
	var want []reflect.Value
	var idx []int
	for i, r := range t.rows {
		match := true
		for _, fld := range k {
			if !equalish(r.FieldByName(fld), row.FieldByName(fld)) {
				match = false
			}
		}
		if match {
			want = append(want, r)
			idx = append(idx, i)
		}
	}
	var gone map[*tinfo]map[int]bool
	var nulled []func()
	refused := false
	if del {
		gone, nulled, refused = h.planDelete(t, idx)
	}
	outs, err := h.call(name, f, args...)
	h.note("%s(...) -> err=%v", name, err)
	if h.faulted() {
		return
	}
	if del && refused {
		if err == nil {
			h.fail("delete_ignores_references", "%s succeeded although a row without ON DELETE action still references a deleted row", name)
		}
		return
	}
	if !h.judgeErr(name, err) || !h.compareSet(name, t, outs[0], want) {
		return
	}
	if del {
		h.applyDelete(gone, nulled)
	}
	h.out.Keys = append(h.out.Keys, "@call:"+strings.ToLower(verb)+"bykey/"+t.Name)
}

func (h *hist) customQuery(t *tinfo, g *gen, op Op) {
	if len(t.Queries) == 0 {
		h.out.Probe("skipped:no custom query")
		return
	}
	q := t.Queries[op.Arg%len(t.Queries)]
	f := h.mustFn(q.Name)
	row, _, ok := h.pick(t, op.Pick)
	if !ok {
		h.out.Probe("skipped:no live row")
		return
	}
	cp := func(v reflect.Value) reflect.Value {
		c := reflect.New(v.Type()).Elem()
		c.Set(v)
		return c
	}
	// new value for q.Set; the selectors are taken from the picked row (for the
	// OR forms from either of the two compared columns)
	nv := reflect.New(row.FieldByName(q.Set).Type()).Elem()
	g.fillColumn(nv, t.Column(q.Set), false)
	if q.Form == 3 {
		// UPDATE t SET <Set> = $val$ WHERE <Where> = #[Enum.Const]
		var want reflect.Value
		for _, c := range h.prog.Enums[t.Column(q.Where).Enum] {
			if fmt.Sprint(c) == q.WhereConst {
				want = reflect.ValueOf(c)
			}
		}
		if !want.IsValid() {
			kernel.Harnessf("query %s: constant %q not found in enum %s", q.Name, q.WhereConst, t.Column(q.Where).Enum)
		}
		_, err := h.call(q.Name, f, h.db(), nv)
		h.note("%s(%s) [where %s = %v] -> err=%v", q.Name, show(nv), q.Where, want.Interface(), err)
		if h.faulted() || !h.judgeErr(q.Name, err) {
			return
		}
		for _, r := range t.rows {
			if equalish(r.FieldByName(q.Where), want.Convert(r.FieldByName(q.Where).Type())) {
				r.FieldByName(q.Set).Set(nv)
			}
		}
		h.out.Keys = append(h.out.Keys, fmt.Sprintf("@call:query3/%s", t.Name))
		h.checkOne(t)
		return
	}
	sel := cp(row.FieldByName(q.Where))
	if q.Form >= 1 && g.r.Bool() {
		sel = cp(row.FieldByName(q.Where2))
	}
	args := []reflect.Value{h.db(), nv, sel}
	var lim reflect.Value
	if q.Form == 2 {
		lim = cp(row.FieldByName(q.Where3))
		args = append(args, lim)
	}
	// the placeholders of the comment are $val$, $sel$ and $lim$: when the
	// generated signature names its parameters after them, call by name
	if names := h.prog.Params[q.Name]; len(names) == len(args) {
		byName := map[string]reflect.Value{"val": nv, "sel": sel, "lim": lim}
		named := []reflect.Value{h.db()}
		for _, n := range names[1:] {
			if v, ok := byName[n]; ok && v.IsValid() {
				named = append(named, v)
			}
		}
		if len(named) == len(args) {
			args = named
		}
	}
	_, err := h.call(q.Name, f, args...)
	h.note("%s(%s, %s, ...) -> err=%v", q.Name, show(nv), show(sel), err)
	if h.faulted() || !h.judgeErr(q.Name, err) {
		return
	}
	// all conditions are evaluated on the old values, then the rows are updated
	var hit []reflect.Value
	for _, r := range t.rows {
		m := equalish(r.FieldByName(q.Where), sel)
		if q.Form >= 1 {
			m = m || equalish(r.FieldByName(q.Where2), sel)
		}
		if q.Form == 2 {
			m = m && equalish(r.FieldByName(q.Where3), lim)
		}
		if m {
			hit = append(hit, r)
		}
	}
	for _, r := range hit {
		r.FieldByName(q.Set).Set(nv)
	}
	h.out.Keys = append(h.out.Keys, fmt.Sprintf("@call:query%d/%s", q.Form, t.Name))
}

// ---- link tables ----------------------------------------------------------

func (h *hist) insertLink(t *tinfo, g *gen) {
	before := h.synced
	row, ok := h.newRow(t, g, 0, -1, 0)
	if !ok || h.synced != before {
		if h.viol == nil {
			h.out.Probe("skipped:no constraint-satisfying row")
		}
		return
	}
	name := t.Name + ".Insert"
	_, err := h.call(name, h.mustFn(name), row, h.db())
	h.note("%s(%s) -> err=%v", name, show(row), err)
	if h.faulted() || !h.judgeErr(name, err) {
		return
	}
	t.rows = append(t.rows, row)
	h.out.Keys = append(h.out.Keys, "@call:insert/"+t.Name)
}

func (h *hist) insertMany(t *tinfo, g *gen, op Op) {
	if t.Primary {
		return
	}
	name := "InsertMany" + t.Name + "s"
	f := h.mustFn(name)
	n := op.N % 5
	var rows []reflect.Value
	before := h.synced
	nBefore := len(t.rows)
	for i := 0; i < n; i++ {
		row, ok := h.newRow(t, g, 0, -1, 0)
		if !ok {
			break
		}
		if h.synced != before {
			break
		}
		rows = append(rows, row)
		t.rows = append(t.rows, row) // so that later rows of the batch do not collide with earlier ones
	}
	if h.synced != before {
		h.resync() // drops the provisional rows again
		// a fault while inserting a parent resynchronised the model: the
		// batch was built against a stale state, give the operation up
		h.out.Probe("skipped:fault during preparation")
		return
	}
	t.rows = t.rows[:nBefore]
	if h.viol != nil {
		return
	}
	// one batch in eight ends with a row repeating the unique key of a stored
	// one: the server refuses the whole COPY when it is flushed, and
	// InsertMany must say so
	if op.Miss && h.tx == nil && len(t.Uniques) > 0 && nBefore > 0 && len(rows) > 0 {
		u := t.Uniques[op.Arg%len(t.Uniques)]
		src := t.rows[op.Pick%nBefore]
		ok := true
		for _, fname := range u {
			if c := t.Column(fname); c != nil && c.Nullable {
				ok = false
			}
		}
		if ok {
			last := rows[len(rows)-1]
			for _, fname := range u {
				last.FieldByName(fname).Set(src.FieldByName(fname))
			}
			tx, err := h.sdb.Begin()
			if err != nil {
				if h.faultedAny() {
					return
				}
				kernel.Harnessf("begin: %v", err)
			}
			args := append([]reflect.Value{reflect.ValueOf(tx)}, rows...)
			h.extraHeld = 1
			_, err = h.call(name, f, args...)
			h.extraHeld = 0
			h.note("%s(%d rows, the last one repeats the unique key %v of a stored row) -> err=%v", name, len(rows), u, err)
			tx.Rollback()
			if h.faultedAny() {
				return
			}
			if err == nil {
				h.fail("refused_batch_not_reported", "%s: the last row of the batch repeats the unique key %v of a stored row, the server refuses the COPY, yet InsertMany returned no error", name, u)
			}
			h.out.Keys = append(h.out.Keys, "@call:insertmany-refused/"+t.Name)
			return
		}
	}
	if h.tx != nil {
		// part of the open transaction, which decides its fate
		args := append([]reflect.Value{h.db()}, rows...)
		_, err := h.call(name, f, args...)
		h.note("%s(%d rows) in the open transaction -> err=%v", name, len(rows), err)
		if h.faulted() || !h.judgeErr(name, err) {
			return
		}
		t.rows = append(t.rows, rows...)
		h.out.Keys = append(h.out.Keys, fmt.Sprintf("@call:insertmany-in-tx/%s/%d", t.Name, len(rows)))
		return
	}
	tx, err := h.sdb.Begin()
	if err != nil {
		if h.faultedAny() {
			return
		}
		kernel.Harnessf("begin: %v", err)
	}
	args := []reflect.Value{reflect.ValueOf(tx)}
	args = append(args, rows...)
	h.extraHeld = 1
	_, err = h.call(name, f, args...)
	h.extraHeld = 0
	h.note("%s(%d rows) in a transaction -> err=%v", name, len(rows), err)
	if err != nil {
		tx.Rollback()
		if h.faulted() {
			return
		}
		h.judgeErr(name, err)
		return
	}
	// InsertMany returned no error: whatever fired during the call, every row of
	// the batch must be stored once the transaction is committed (a fault
	// excuses an error, not a silent loss)
	firedDuringCall := h.srv.FaultedSinceReset()
	if firedDuringCall {
		h.srv.ResetFaultFlag()
		h.out.Probe("fault_without_error:call_judged")
	}
	if op.Commit || firedDuringCall {
		cerr := tx.Commit()
		h.note("commit -> %v", cerr)
		if h.faultedAny() {
			return
		}
		if cerr != nil {
			h.judgeErr("commit after "+name, cerr)
			return
		}
		t.rows = append(t.rows, rows...)
		h.out.Keys = append(h.out.Keys, fmt.Sprintf("@call:insertmany-commit/%s/%d", t.Name, len(rows)))
		if firedDuringCall {
			h.checkOne(t)
		}
	} else {
		tx.Rollback()
		h.note("rollback")
		if h.faultedAny() {
			return
		}
		h.out.Keys = append(h.out.Keys, fmt.Sprintf("@call:insertmany-rollback/%s/%d", t.Name, len(rows)))
	}
}

func (h *hist) deleteLink(t *tinfo, op Op) {
	name := t.Name + ".Delete"
	f := h.mustFn(name)
	row, _, ok := h.pick(t, op.Pick)
	if !ok {
		h.out.Probe("skipped:no live row")
		return
	}
	if op.Miss && len(t.fks) >= 2 {
		// a link that is not stored, sharing one key with a stored one: the item
		// keeps the first key of the picked row and takes another parent for the
		// last non-nullable key; deleting it removes nothing
		c := t.fks[len(t.fks)-1]
		target := h.byName[c.FK]
		if target != nil && !c.Nullable && len(target.rows) >= 2 {
			item := own(t, row)
			cur, _ := fkGet(row.FieldByName(c.Field))
			for _, pr := range target.rows {
				if id := target.idOf(pr); id != cur {
					fkSet(item.FieldByName(c.Field), id, true)
					break
				}
			}
			stored := false
			for _, r := range t.rows {
				same := true
				for _, k := range t.fks {
					a, av := fkGet(r.FieldByName(k.Field))
					b, bv := fkGet(item.FieldByName(k.Field))
					if av != bv || (av && a != b) {
						same = false
					}
				}
				stored = stored || same
			}
			if !stored {
				_, err := h.call(name, f, item, h.db())
				h.note("%s(%s) -> err=%v (no such link)", name, show(item), err)
				if h.faulted() || !h.judgeErr(name, err) {
					return
				}
				h.out.Keys = append(h.out.Keys, "@call:delete-absent-link/"+t.Name)
				// the model is unchanged; the next full check or select sees it
				h.checkOne(t)
				return
			}
		}
	}
	// only the foreign key fields of the item are used
	_, err := h.call(name, f, row, h.db())
	h.note("%s(%s) -> err=%v", name, show(row), err)
	if h.faulted() || !h.judgeErr(name, err) {
		return
	}
	var keep []reflect.Value
	for _, r := range t.rows {
		same := true
		for _, c := range t.fks {
			a, av := fkGet(r.FieldByName(c.Field))
			b, bv := fkGet(row.FieldByName(c.Field))
			if av != bv || (av && a != b) {
				same = false
			}
		}
		if !same {
			keep = append(keep, r)
		}
	}
	t.rows = keep
	h.out.Keys = append(h.out.Keys, "@call:delete/"+t.Name)
}

var _ = synth.TableInfo{}

// insertDuplicate tries to store a row that repeats a unique key of a stored
// one: the schema must refuse it. The generated code relies on that
// uniqueness (single-row lookups, collapsing By<F>() maps): a schema without
// the constraint and code that assumes it do not agree.
func (h *hist) insertDuplicate(t *tinfo, g *gen, op Op) {
	u := t.Uniques[op.Arg%len(t.Uniques)]
	src, _, _ := h.pick(t, op.Pick)
	for _, f := range u {
		// (a NULL in the key makes the rows distinct for PostgreSQL)
		if c := t.Column(f); c != nil && c.Nullable {
			if _, valid := fkGet(src.FieldByName(f)); !valid && c.Kind == "fk" {
				return
			}
			if c.Kind != "fk" && src.FieldByName(f).IsZero() {
				return
			}
		}
	}
	before := h.synced
	row, ok := h.newRow(t, g, 0, -1, 0)
	if !ok || h.synced != before {
		return
	}
	for _, f := range u {
		row.FieldByName(f).Set(src.FieldByName(f))
	}
	name := t.Name + ".Insert"
	_, err := h.call(name, h.mustFn(name), row, h.db())
	h.note("%s(%s) -> err=%v (repeats the unique key %v of a stored row)", name, show(row), err, u)
	if h.faulted() {
		return
	}
	if err == nil {
		h.fail("unique_key_not_enforced", "%s stored a second row with the key %v of a stored row: the generated code treats these columns as unique (comment of the table), the generated schema does not enforce it\n  stored: %s\n  added:  %s", name, u, show(src), show(row))
		return
	}
	var pe *pgsim.Error
	if !asPgErr(err, &pe) || pe.Class != "constraint" {
		h.judgeErr(name, err)
		return
	}
	h.out.Keys = append(h.out.Keys, "@call:insert-duplicate-refused/"+t.Name)
}
