package rt

import (
	"bytes"
	"encoding/json"
	"flag"
	"fmt"
	"os"
	"os/exec"
	"path/filepath"
	"sort"
	"strings"
	"time"

	"verif/kernel"
)

var (
	flagChild = flag.Bool("child", false, "internal: run generated functions")
	flagProg  = flag.String("prog", "", "internal: program name")
	flagSeed0 = flag.Int64("seed0", 1, "internal: seed base")
	flagK     = flag.Int("k", 32, "internal: calls per function")
	flagOnly  = flag.String("only", "", "internal: restrict to one function")
	flagCallT = flag.Int("calltimeout", 10, "internal: seconds a generated call may take")
)

// BatchInfo is what the preparation step knows about the batch.
type BatchInfo struct {
	Programs []ProgInfo `json:"programs"`
	Dropped  []string   `json:"dropped"`
	// Failed: hand-written corpus programs (supported shapes only, all of them
	// generate and compile on the tree the corpus was written for) for which no
	// usable random-data file came out
	Failed []FailedProg `json:"failed,omitempty"`
}

type FailedProg struct {
	Name string `json:"name"`
	Why  string `json:"why"`
}

// ParentPhase reports the corpus programs that got no random function at all.
func (c *c15) ParentPhase(env *kernel.Env) kernel.PhaseResult {
	var res kernel.PhaseResult
	for i, f := range c.info.Failed {
		v := kernel.Violation{Property: "C15", Clause: "no_random_function_for_supported_program", Signature: "corpus/" + f.Name,
			Detail: fmt.Sprintf("corpus program %s is made of supported declarations only, yet the random-data generator gives nothing that can be called: %s", f.Name, f.Why)}
		path := filepath.Join(kernel.ReplayDir(env), fmt.Sprintf("C15-corpus-%s-no-function.json", f.Name))
		b, _ := json.MarshalIndent(map[string]any{"violation": v, "command": "./check C15 quick (the preparation step regenerates the corpus program " + f.Name + ")"}, "", " ")
		os.WriteFile(path, b, 0o644)
		res.Violations = append(res.Violations, kernel.Found{V: v, File: path, Case: kernel.Case{Index: 1<<30 + i}})
	}
	return res
}

type ProgInfo struct {
	Name   string `json:"name"`
	Kind   string `json:"kind"` // corpus | synth
	Seed   uint64 `json:"seed,omitempty"`
	Funcs  int    `json:"funcs"`
	Cyclic bool   `json:"cyclic"`
}

type params struct {
	Prog  string `json:"program"`
	Seed0 int64  `json:"seed0"`
	K     int    `json:"k"`
	Only  string `json:"only,omitempty"`
}

type c15 struct {
	progs []Program
	info  BatchInfo
}

func (c *c15) ID() string { return "C15" }

func (c *c15) Runs(env *kernel.Env) int {
	if env.Tier == "thorough" {
		return 0
	}
	return len(c.progs) * 4
}

func (c *c15) Generate(env *kernel.Env, r *kernel.Rand, index int) any {
	p := c.progs[index%len(c.progs)]
	return params{Prog: p.Name, Seed0: int64(r.Uint64() >> 2), K: 32}
}

func (c *c15) kind(name string) string {
	for _, pi := range c.info.Programs {
		if pi.Name == name {
			return pi.Kind
		}
	}
	return "?"
}

func (c *c15) Execute(env *kernel.Env, raw json.RawMessage, ch *kernel.Choices) *kernel.Outcome {
	var p params
	if err := json.Unmarshal(raw, &p); err != nil {
		kernel.Harnessf("params: %v", err)
	}
	out := c.runChild(p, 10)
	if out.Violation != nil && out.Violation.Clause == "does_not_return" {
		// a wall-clock verdict: confirm it on that function alone with three
		// times the budget before believing it (a loaded machine can starve a
		// child for seconds; a loop that never ends will not finish either way)
		q := p
		q.Only = strings.TrimPrefix(out.Violation.Signature[strings.LastIndex(out.Violation.Signature, "/")+1:], "")
		again := c.runChild(q, 30)
		if again.Violation == nil || again.Violation.Clause != "does_not_return" {
			out.Violation = again.Violation
			out.Probe("watchdog_verdict_not_confirmed")
		}
	}
	return out
}

func (c *c15) runChild(p params, callTimeout int) *kernel.Outcome {
	out := &kernel.Outcome{}
	args := []string{"-child", "-prog", p.Prog, "-seed0", fmt.Sprint(p.Seed0), "-k", fmt.Sprint(p.K), "-calltimeout", fmt.Sprint(callTimeout)}
	if p.Only != "" {
		args = append(args, "-only", p.Only)
	}
	cmd := exec.Command(os.Args[0], args...)
	var so, se bytes.Buffer
	cmd.Stdout, cmd.Stderr = &so, &se
	cmd.Env = append(os.Environ(), "GOMAXPROCS=2", "GOTRACEBACK=single")
	if err := cmd.Start(); err != nil {
		kernel.Harnessf("start child: %v", err)
	}
	done := make(chan error, 1)
	go func() { done <- cmd.Wait() }()
	var werr error
	select {
	case werr = <-done:
	case <-time.After(10 * time.Minute):
		cmd.Process.Kill()
		<-done
		kernel.Harnessf("child for %s hit the 10 minute wall-clock watchdog without tripping its own per-call watchdog", p.Prog)
	}
	lastCall := ""
	var lastSeed int64
	finished := false
	var firstViol *Viol
	for _, line := range strings.Split(so.String(), "\n") {
		switch {
		case strings.HasPrefix(line, "CALL "):
			var f string
			var s int64
			fmt.Sscanf(line, "CALL %s %d", &f, &s)
			lastCall, lastSeed = f, s
			out.Steps++
		case strings.HasPrefix(line, "VIOL "):
			var v Viol
			if json.Unmarshal([]byte(strings.TrimPrefix(line, "VIOL ")), &v) == nil && firstViol == nil {
				firstViol = &v
			}
		case strings.HasPrefix(line, "TIMEOUT"):
			firstViol = &Viol{Func: lastCall, Seed: lastSeed, Clause: "does_not_return", Detail: fmt.Sprintf("the call did not return within %d s of wall-clock time, confirmed by a second run of that function alone with 30 s (a generated function normally runs for microseconds)", callTimeout)}
		case strings.HasPrefix(line, "DONE "):
			finished = true
			var st map[string]struct{ Calls, Distinct int }
			json.Unmarshal([]byte(strings.TrimPrefix(line, "DONE ")), &st)
			var fnames []string
			for f := range st {
				fnames = append(fnames, f)
			}
			sort.Strings(fnames)
			for _, f := range fnames {
				out.Keys = append(out.Keys, fmt.Sprintf("%s/%s/%d", p.Prog, f, p.Seed0))
				out.ProbeN("distinct_values", int64(st[f].Distinct))
			}
			out.Sample = map[string]any{"program": p.Prog, "seed0": p.Seed0, "k": p.K, "functions": len(st)}
		}
	}
	if !finished && firstViol == nil {
		errText := se.String()
		switch {
		case strings.Contains(errText, "stack exceeds") || strings.Contains(errText, "stack overflow"):
			firstViol = &Viol{Func: lastCall, Seed: lastSeed, Clause: "does_not_terminate", Detail: "unbounded recursion: the child died with a stack overflow (64 MiB limit) inside this call"}
		default:
			if len(errText) > 1500 {
				errText = errText[:1500]
			}
			kernel.Harnessf("child for %s died without verdict (%v) after CALL %s %d:\n%s", p.Prog, werr, lastCall, lastSeed, errText)
		}
	}
	if firstViol != nil {
		out.Violation = &kernel.Violation{Property: "C15", Clause: firstViol.Clause,
			Signature: fmt.Sprintf("%s/%s/%s", c.kind(p.Prog), p.Prog, firstViol.Func),
			Detail:    fmt.Sprintf("program %s, function %s, math/rand seed %d: %s", p.Prog, firstViol.Func, firstViol.Seed, firstViol.Detail)}
	}
	return out
}

func (c *c15) Shrink(raw json.RawMessage) []json.RawMessage {
	var p params
	json.Unmarshal(raw, &p)
	var out []json.RawMessage
	if p.Only == "" {
		for _, pr := range c.progs {
			if pr.Name != p.Prog {
				continue
			}
			for _, f := range pr.Funcs {
				q := p
				q.Only = f.Name
				out = append(out, kernel.MustJSON(q))
			}
		}
	}
	return out
}

func (c *c15) Meta(env *kernel.Env) kernel.Meta {
	return kernel.Meta{
		Rule: "a run = one child process executing every generated rand<T> function of one program K=32 times, each call under its own math/rand seed derived from the run seed; distinct = distinct (program, function, seed base); non-trivial = the function returned at least once (value walked by reflection against the source-derived enum / union / skip tables, JSON round trip, variation and population over the K calls)",
		Real: []string{"analysis + generator/go/randdata + generator/go/gounions (current tree) produce the code", "the generated Go files, compiled unmodified and executed", "math/rand global source (go1.23: rand.Seed makes it a pure function of the seed)", "encoding/json", "x/tools/imports in place of the goimports binary"},
		Stub: []string{"none"},
		Assumptions: []string{
			"populated is read leniently: a slice or map position must be non-empty in at least one of the K calls",
			"varying is judged only for types that structurally admit two values (conservative rule), over 32 calls",
			"the JSON clause is skipped for functions whose result type is itself a union interface",
			"synthesised programs are acyclic; cyclic type graphs are exercised by fixed corpus programs",
		},
		Extra: map[string]any{"batch": c.info},
	}
}

// Main is the entry point of the batch binary.
func Main(progs []Program, infoJSON string) {
	flag.Parse()
	if *flagChild {
		callTimeoutSeconds = *flagCallT
		for i := range progs {
			if progs[i].Name == *flagProg {
				Child(&progs[i], *flagSeed0, *flagK, *flagOnly)
				return
			}
		}
		fmt.Fprintln(os.Stderr, "unknown program", *flagProg)
		os.Exit(4)
	}
	c := &c15{progs: progs}
	json.Unmarshal([]byte(infoJSON), &c.info)
	if len(progs) == 0 {
		fmt.Fprintln(os.Stderr, "HARNESS-ERROR: empty batch")
		os.Exit(2)
	}
	kernel.Main(c)
}
