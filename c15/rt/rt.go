// Package rt is the run-time half of the C15 check: it is linked, together
// with the generated random-data and union files of every program of a batch,
// into one binary that acts both as the seeded driver (parent) and as the
// child process in which the generated functions actually run.
package rt

import (
	"math"
	"bufio"
	"encoding/json"
	"fmt"
	"math/rand"
	"os"
	"reflect"
	"runtime/debug"
	"sort"
	"strings"
	"time"
)

// Func is one generated rand<T> function.
type Func struct {
	Name string
	Call func() any
	New  func() any // pointer to a fresh zero value of the result type
}

type EnumTable struct {
	Exported []any // the enum's exported constants (typed)
}

type UnionTable struct {
	Iface   reflect.Type
	Members []any // zero values of the member types
}

type Program struct {
	Name   string
	NoJSON bool // the JSON round trip is out of reach for this program (see prep)
	Funcs  []Func
	Enums  []EnumTable
	Unions []UnionTable
}

type tables struct {
	enums  map[reflect.Type]map[any]bool
	unions map[reflect.Type]map[reflect.Type]bool
}

func buildTables(p *Program) *tables {
	t := &tables{enums: map[reflect.Type]map[any]bool{}, unions: map[reflect.Type]map[reflect.Type]bool{}}
	for _, e := range p.Enums {
		if len(e.Exported) == 0 {
			continue
		}
		ty := reflect.TypeOf(e.Exported[0])
		m := map[any]bool{}
		for _, v := range e.Exported {
			m[v] = true
		}
		t.enums[ty] = m
	}
	for _, u := range p.Unions {
		m := map[reflect.Type]bool{}
		for _, v := range u.Members {
			m[reflect.TypeOf(v)] = true
		}
		t.unions[u.Iface] = m
	}
	return t
}

var timeType = reflect.TypeOf(time.Time{})

func isTimeLike(t reflect.Type) bool {
	return t.Kind() == reflect.Struct && t.ConvertibleTo(timeType) && t.NumField() == timeType.NumField() && t.Field(0).Name == "wall"
}

// Viol is one oracle failure reported by the child.
type Viol struct {
	Func   string `json:"func"`
	Seed   int64  `json:"seed"`
	Clause string `json:"clause"`
	Detail string `json:"detail"`
}

type walker struct {
	t *tables
	// populated[path] = true once a slice/map at that position was non-empty
	populated map[string]bool
	seenPos   map[string]bool
	err       string
	clause    string
	// drawn[union][member]: how often each member was met at a union-typed
	// position, over all calls of the child
	drawn map[reflect.Type]map[reflect.Type]int
}

func (w *walker) fail(clause, format string, a ...any) {
	if w.err == "" {
		w.clause = clause
		w.err = fmt.Sprintf(format, a...)
	}
}

func (w *walker) walk(v reflect.Value, path string, depth int) {
	if w.err != "" || depth > 200 {
		return
	}
	t := v.Type()
	if allowed, isEnum := w.t.enums[t]; isEnum {
		if !allowed[v.Interface()] {
			w.fail("enum_value_not_an_exported_constant", "%s: value %v of enum %s is not one of its exported constants", path, v.Interface(), t)
		}
		return
	}
	switch t.Kind() {
	case reflect.Interface:
		members, isUnion := w.t.unions[t]
		if !isUnion {
			return
		}
		if v.IsNil() {
			w.fail("union_value_is_nil", "%s: union %s is nil", path, t)
			return
		}
		dyn := v.Elem()
		if !members[dyn.Type()] {
			w.fail("union_value_not_a_member", "%s: dynamic type %s is not a member of union %s", path, dyn.Type(), t)
			return
		}
		if w.drawn != nil {
			if w.drawn[t] == nil {
				w.drawn[t] = map[reflect.Type]int{}
			}
			w.drawn[t][dyn.Type()]++
		}
		w.walk(dyn, path+"("+dyn.Type().Name()+")", depth+1)
	case reflect.Struct:
		if isTimeLike(t) {
			return
		}
		for i := 0; i < t.NumField(); i++ {
			f := t.Field(i)
			if f.Tag.Get("gomacro-data") == "ignore" {
				if !v.Field(i).IsZero() {
					w.fail("skipped_field_not_zero", "%s.%s is tagged gomacro-data:\"ignore\" but is not the zero value", path, f.Name)
				}
				continue
			}
			if !f.IsExported() {
				continue
			}
			// positions are keyed by the declaring struct and field, not by the
			// full path: a recursive type necessarily has empty containers at
			// the depth where the recursion stops
			w.walk(v.Field(i), t.Name()+"."+f.Name, depth+1)
		}
	case reflect.Slice:
		if t.Name() != "" {
			path = t.Name() // a named container is one position wherever it occurs (it may contain itself)
		}
		if t.Elem().Kind() == reflect.Uint8 && t.Elem() == reflect.TypeOf(byte(0)) {
			w.notePos(path+"[]", v.Len() > 0)
			return
		}
		w.notePos(path+"[]", v.Len() > 0)
		for i := 0; i < v.Len(); i++ {
			w.walk(v.Index(i), path+"[]", depth+1)
		}
	case reflect.Array:
		for i := 0; i < v.Len(); i++ {
			w.walk(v.Index(i), path+"[]", depth+1)
		}
	case reflect.Map:
		if t.Name() != "" {
			path = t.Name()
		}
		w.notePos(path+"{}", v.Len() > 0)
		iter := v.MapRange()
		for iter.Next() {
			w.walk(iter.Key(), path+"{key}", depth+1)
			w.walk(iter.Value(), path+"{}", depth+1)
		}
	case reflect.Ptr:
		if !v.IsNil() {
			w.walk(v.Elem(), path+"*", depth+1)
		}
	}
}

func (w *walker) notePos(path string, nonEmpty bool) {
	w.seenPos[path] = true
	if nonEmpty {
		w.populated[path] = true
	}
}

// admitsTwo is a conservative structural test: true only if the type surely
// has at least two distinct well-formed values.
func (tb *tables) admitsTwo(t reflect.Type, depth int) bool {
	if depth > 6 {
		return false
	}
	if allowed, isEnum := tb.enums[t]; isEnum {
		return len(allowed) >= 2
	}
	switch t.Kind() {
	case reflect.Bool, reflect.Int, reflect.Int8, reflect.Int16, reflect.Int32, reflect.Int64, reflect.Uint, reflect.Uint8, reflect.Uint16, reflect.Uint32, reflect.Uint64, reflect.Float32, reflect.Float64, reflect.String:
		return true
	case reflect.Slice:
		return true // the length already varies
	case reflect.Map:
		// a map over a small key domain (enum, bool) fills up completely on
		// every call: it varies only if its values do
		if _, isEnum := tb.enums[t.Key()]; isEnum || t.Key().Kind() == reflect.Bool {
			return tb.admitsTwo(t.Elem(), depth+1)
		}
		return true
	case reflect.Array:
		return t.Len() > 0 && tb.admitsTwo(t.Elem(), depth+1)
	case reflect.Struct:
		if isTimeLike(t) {
			return true
		}
		for i := 0; i < t.NumField(); i++ {
			f := t.Field(i)
			if !f.IsExported() || f.Tag.Get("gomacro-data") == "ignore" {
				continue
			}
			if tb.admitsTwo(f.Type, depth+1) {
				return true
			}
		}
	case reflect.Interface:
		ms := tb.unions[t]
		if len(ms) >= 2 {
			return true
		}
		for m := range ms {
			return tb.admitsTwo(m, depth+1)
		}
	}
	return false
}

// anonUnionContainer reports unnamed slices, arrays and maps whose elements
// are unions: the wire format of C02 is defined for named containers only
// (the union generator refuses anonymous ones), so such a value has no JSON
// round trip to survive; its elements are still walked.
func anonUnionContainer(tb *tables, t reflect.Type) bool {
	if t.Name() != "" {
		return false
	}
	switch t.Kind() {
	case reflect.Slice, reflect.Array, reflect.Map:
		if _, isUnion := tb.unions[t.Elem()]; isUnion {
			return true
		}
		return anonUnionContainer(tb, t.Elem())
	}
	return false
}

// instant decodes a time.Time-shaped value through its unexported fields
// (reflection refuses Interface() on values reached through unexported
// struct fields, so the Equal method cannot be used everywhere).
func instant(v reflect.Value) (sec int64, nsec int64) {
	wall := v.Field(0).Uint()
	ext := v.Field(1).Int()
	nsec = int64(wall & (1<<30 - 1))
	if wall>>63 != 0 {
		const wallToInternal = (1884*365 + 1884/4 - 1884/100 + 1884/400) * 86400
		return int64(wall<<1>>31) + wallToInternal, nsec
	}
	return ext, nsec
}

// equalish is deep equality with nil == empty for slices and maps and
// instant equality for times.
// jsonView, while set, makes equalish ignore what encoding/json does not
// carry: fields tagged json:"-" and unexported fields (the round trip cannot
// bring them back, C02 compares the serialised part).
var jsonView bool

func equalJSON(a, b reflect.Value) bool {
	jsonView = true
	defer func() { jsonView = false }()
	return equalish(a, b)
}

func equalish(a, b reflect.Value) bool {
	if a.Type() != b.Type() {
		return false
	}
	t := a.Type()
	switch t.Kind() {
	case reflect.Struct:
		if isTimeLike(t) {
			sa, na := instant(a)
			sb, nb := instant(b)
			return sa == sb && na == nb
		}
		for i := 0; i < t.NumField(); i++ {
			if jsonView && (!t.Field(i).IsExported() || t.Field(i).Tag.Get("json") == "-") {
				continue
			}
			if !equalish(a.Field(i), b.Field(i)) {
				return false
			}
		}
		return true
	case reflect.Slice:
		if a.Len() != b.Len() {
			return false
		}
		for i := 0; i < a.Len(); i++ {
			if !equalish(a.Index(i), b.Index(i)) {
				return false
			}
		}
		return true
	case reflect.Array:
		for i := 0; i < a.Len(); i++ {
			if !equalish(a.Index(i), b.Index(i)) {
				return false
			}
		}
		return true
	case reflect.Map:
		if a.Len() != b.Len() {
			return false
		}
		iter := a.MapRange()
		for iter.Next() {
			bv := b.MapIndex(iter.Key())
			if !bv.IsValid() || !equalish(iter.Value(), bv) {
				return false
			}
		}
		return true
	case reflect.Interface, reflect.Ptr:
		if a.IsNil() || b.IsNil() {
			return a.IsNil() == b.IsNil()
		}
		return equalish(a.Elem(), b.Elem())
	case reflect.Float32, reflect.Float64:
		return a.Float() == b.Float()
	case reflect.Bool:
		return a.Bool() == b.Bool()
	case reflect.Int, reflect.Int8, reflect.Int16, reflect.Int32, reflect.Int64:
		return a.Int() == b.Int()
	case reflect.Uint, reflect.Uint8, reflect.Uint16, reflect.Uint32, reflect.Uint64, reflect.Uintptr:
		return a.Uint() == b.Uint()
	case reflect.String:
		return a.String() == b.String()
	default:
		if a.CanInterface() && b.CanInterface() {
			return reflect.DeepEqual(a.Interface(), b.Interface())
		}
		return true // unexported field of a kind we do not compare
	}
}

// callTimeoutSeconds is the wall-clock budget of one generated call.
var callTimeoutSeconds = 10

// Child executes every function of the program K times under seeds derived
// from seed0, printing a line-oriented log on stdout.
func Child(p *Program, seed0 int64, k int, only string) {
	debug.SetMaxStack(64 << 20)
	out := bufio.NewWriterSize(os.Stdout, 1)
	tb := buildTables(p)
	type stat struct {
		Calls    int `json:"calls"`
		Distinct int `json:"distinct"`
	}
	stats := map[string]*stat{}
	current := make(chan string, 1)
	// per-call wall-clock watchdog: a generated function runs for
	// microseconds; ten seconds without returning means it never will
	tick := make(chan struct{}, 1)
	go func() {
		last := ""
		limit := time.Duration(callTimeoutSeconds) * time.Second
		timer := time.NewTimer(limit)
		for {
			select {
			case last = <-current:
				if !timer.Stop() {
					select {
					case <-timer.C:
					default:
					}
				}
				timer.Reset(limit)
			case <-timer.C:
				if last == "" {
					timer.Reset(limit) // between two calls: the oracle is working
					continue
				}
				fmt.Fprintf(os.Stdout, "TIMEOUT %s\n", last)
				os.Exit(3)
			}
		}
	}()
	_ = tick
	drawn := map[reflect.Type]map[reflect.Type]int{}
	for _, f := range p.Funcs {
		if only != "" && f.Name != only {
			continue
		}
		st := &stat{}
		stats[f.Name] = st
		w := &walker{t: tb, populated: map[string]bool{}, seenPos: map[string]bool{}, drawn: drawn}
		distinct := map[string]bool{}
		var first reflect.Value
		allEqual := true
		for i := 0; i < k; i++ {
			seed := seed0*1000003 + int64(i)*7919 + int64(len(f.Name))
			fmt.Fprintf(out, "CALL %s %d\n", f.Name, seed)
			out.Flush()
			current <- f.Name
			rand.Seed(seed)
			var val any
			var panicked any
			func() {
				defer func() {
					if r := recover(); r != nil {
						panicked = r
					}
				}()
				val = f.Call()
			}()
			current <- "" // returned: the watchdog only times the generated function, not the oracle
			st.Calls++
			report := func(clause, detail string) {
				b, _ := json.Marshal(Viol{Func: f.Name, Seed: seed, Clause: clause, Detail: detail})
				fmt.Fprintf(out, "VIOL %s\n", b)
				out.Flush()
			}
			if panicked != nil {
				report("generated_function_panics", fmt.Sprint(panicked))
				continue
			}
			v := reflect.ValueOf(val)
			if !v.IsValid() {
				// a nil interface result: only legal if the result type is not a union
				rt := reflect.TypeOf(f.New()).Elem()
				if _, isUnion := tb.unions[rt]; isUnion {
					report("union_value_is_nil", "result of "+f.Name+" is a nil union value")
				}
				continue
			}
			// re-box into the declared result type so that interface-typed results are judged as unions
			holder := reflect.ValueOf(f.New()).Elem()
			holder.Set(v)
			w.err = ""
			w.walk(holder, f.Name+"()", 0)
			if w.err != "" {
				report(w.clause, w.err)
				continue
			}
			// JSON round trip (skipped for bare interface results: the wire
			// format of a union is defined for union-typed components)
			if !p.NoJSON && holder.Kind() != reflect.Interface && !anonUnionContainer(tb, holder.Type()) {
				b, err := safeMarshal(holder.Interface())
				if err != nil {
					report("json_round_trip", "marshal: "+err.Error())
					continue
				}
				back := f.New()
				if err := json.Unmarshal(b, back); err != nil {
					report("json_round_trip", "unmarshal: "+err.Error()+" document "+clip(string(b)))
					continue
				}
				if !equalJSON(holder, reflect.ValueOf(back).Elem()) {
					report("json_round_trip", "value differs after the round trip; document "+clip(string(b)))
					continue
				}
				distinct[string(b)] = true
			} else {
				distinct[fmt.Sprintf("%#v", holder.Interface())] = true
			}
			if i == 0 {
				first = reflect.New(holder.Type()).Elem()
				first.Set(holder)
			} else if allEqual && !equalish(first, holder) {
				allEqual = false
			}
		}
		st.Distinct = len(distinct)
		rtype := reflect.TypeOf(f.New()).Elem()
		if k >= 16 && allEqual && first.IsValid() && tb.admitsTwo(rtype, 0) {
			b, _ := json.Marshal(Viol{Func: f.Name, Seed: seed0, Clause: "repeated_calls_never_vary", Detail: fmt.Sprintf("%d calls under %d different seeds returned equal values although %s admits more than one value", k, k, rtype)})
			fmt.Fprintf(out, "VIOL %s\n", b)
		}
		var never []string
		for pos := range w.seenPos {
			if !w.populated[pos] {
				never = append(never, pos)
			}
		}
		sort.Strings(never)
		if k >= 16 && len(never) > 0 {
			b, _ := json.Marshal(Viol{Func: f.Name, Seed: seed0, Clause: "container_never_populated", Detail: fmt.Sprintf("in %d calls these slices/maps were always empty: %s", k, strings.Join(never, ", "))})
			fmt.Fprintf(out, "VIOL %s\n", b)
		}
	}
	// every member of a union turns up: judged per union over all the calls of
	// this process, and only when the number of draws makes a fair generator
	// miss a member with probability below 1e-9 (a tenth of the draws is counted:
	// at the recursion bound the way out is forced)
	if only == "" {
		var names []string
		byName := map[string]reflect.Type{}
		for u := range drawn {
			names = append(names, u.String())
			byName[u.String()] = u
		}
		sort.Strings(names)
		for _, name := range names {
			u := byName[name]
			members := tb.unions[u]
			n, total := len(members), 0
			for _, c := range drawn[u] {
				total += c
			}
			if n < 2 || float64(n)*math.Pow(1-1/float64(n), float64(total)/10) > 1e-9 {
				continue
			}
			var missing []string
			for m := range members {
				if drawn[u][m] == 0 {
					missing = append(missing, m.String())
				}
			}
			sort.Strings(missing)
			if len(missing) > 0 {
				b, _ := json.Marshal(Viol{Func: "(all functions)", Seed: seed0, Clause: "union_member_never_produced", Detail: fmt.Sprintf("union %s was drawn %d times at union-typed positions over all calls, its member(s) %s never turned up (%d members)", name, total, strings.Join(missing, ", "), n)})
				fmt.Fprintf(out, "VIOL %s\n", b)
			}
		}
	}
	b, _ := json.Marshal(stats)
	fmt.Fprintf(out, "DONE %s\n", b)
	out.Flush()
}

// safeMarshal turns a panic inside a generated MarshalJSON into an error.
func safeMarshal(v any) (b []byte, err error) {
	defer func() {
		if r := recover(); r != nil {
			err = fmt.Errorf("panic while marshalling: %v", r)
		}
	}()
	return json.Marshal(v)
}

func clip(s string) string {
	if len(s) > 300 {
		return s[:300] + "..."
	}
	return s
}
