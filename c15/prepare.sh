# sourced by ./check for C15: build the batch (programs + generated code) and its binary
TIER=quick
for a in "${ARGS[@]}"; do case "$a" in -tier=*) TIER="${a#-tier=}";; esac; done
build "$SCR/bin/c15prep" ./c15/prep
"$SCR/bin/c15prep" -repo "$SCR/repo" -verif "$VERIF" -out "$SCR/c15batch" -bin "$SCR/bin/c15" -tier "$TIER" -seed "${VERIF_SEED:-1}" || exit 2
BUILD_DONE=1
