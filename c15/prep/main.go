// prep builds the C15 batch: it writes the programs as sibling packages of
// one module, runs the real randdata and gounions generators of the tree
// under test on each, fixes imports with x/tools/imports (the library behind
// the goimports binary the tool shells out to), writes the glue that lists
// the generated functions and the source-derived tables, and links
// everything into one binary.
package main

import (
	"encoding/json"
	"flag"
	"fmt"
	"go/ast"
	"os"
	"path/filepath"
	"sort"
	"strings"

	"golang.org/x/tools/imports"

	"github.com/benoitkugler/gomacro/analysis"
	"github.com/benoitkugler/gomacro/generator"
	"github.com/benoitkugler/gomacro/generator/go/gounions"
	"github.com/benoitkugler/gomacro/generator/go/randdata"

	"verif/batch"
	"verif/c15/rt"
	"verif/kernel"
	"verif/synth"
)

func fatal(format string, a ...any) {
	fmt.Fprintf(os.Stderr, "HARNESS-ERROR: c15 prep: "+format+"\n", a...)
	os.Exit(2)
}

// testsourceProgram copies the repository's own fixture sources.
func testsourceProgram(repo, verif string) (*synth.Program, error) {
	p := &synth.Program{Name: "testsource", Module: batch.Module + "/testsource", Files: map[string]string{}, RootName: "testsource", Analyse: []string{"defs.go"}}
	root := filepath.Join(repo, "testutils", "testsource")
	for _, f := range []string{"defs.go", "other_file.go", "subpackage/enums.go", "subpackage/named.go"} {
		b, err := os.ReadFile(filepath.Join(root, f))
		if err != nil {
			return nil, err
		}
		p.Files[f] = strings.ReplaceAll(string(b), "github.com/benoitkugler/gomacro/testutils/testsource", batch.Module+"/testsource")
	}
	b, err := os.ReadFile(filepath.Join(verif, "corpus-tables", "testsource.json"))
	if err != nil {
		return nil, err
	}
	var t struct {
		Enums  []synth.EnumInfo
		Unions []synth.UnionInfo
	}
	if err := json.Unmarshal(b, &t); err != nil {
		return nil, err
	}
	p.Enums, p.Unions = t.Enums, t.Unions
	return p, nil
}

// noJSON: corpus programs marked verif-no-json
var noJSON = map[string]bool{}

func generate(dir string, p *synth.Program) (files map[string]string, nfuncs int, err error) {
	defer func() {
		if r := recover(); r != nil {
			err = fmt.Errorf("generator panicked: %v", r)
		}
	}()
	src := filepath.Join(dir, p.Name, p.Analyse[0])
	// history: the code under test comes from the second load and generation of
	// the program in this process (a long-lived caller - a watcher, a server,
	// a test binary - generates again and again; nothing may go stale)
	if first, _, ferr := analysis.LoadSources([]string{src}); ferr == nil {
		a0 := analysis.NewAnalysisFromFile(first[0], src)
		randdata.Generate(a0)
		gounions.Generate(a0)
	}
	pkgs, _, lerr := analysis.LoadSources([]string{src})
	if lerr != nil {
		return nil, 0, fmt.Errorf("load: %v", lerr)
	}
	ana := analysis.NewAnalysisFromFile(pkgs[0], src)
	randSrc := generator.WriteDeclarations(randdata.Generate(ana))
	unionSrc := generator.WriteDeclarations(gounions.Generate(ana))
	if noJSON[p.Name] {
		// the program holds a union inside a generic type of another package:
		// no package can give that type the JSON methods the wrappers rely on,
		// so the wire format is out of reach and only the random functions are judged
		unionSrc = fmt.Sprintf("package %s\n", pkgs[0].Types.Name())
	}
	files = map[string]string{}
	opts := &imports.Options{Comments: true, TabIndent: true, TabWidth: 8}
	for name, text := range map[string]string{"verif_rand_gen.go": randSrc, "verif_unions_gen.go": unionSrc} {
		path := filepath.Join(dir, p.Name, name)
		// the generators list the analysed package among the imports of a file
		// that is itself in that package and rely on goimports to drop it; when
		// another imported package has the same name, goimports may drop the
		// wrong one: the self-import is removed first (it can never compile)
		self := fmt.Sprintf("%q", pkgs[0].PkgPath)
		var kept []string
		for _, line := range strings.Split(text, "\n") {
			if strings.TrimSpace(line) == self {
				continue
			}
			kept = append(kept, line)
		}
		text = strings.Join(kept, "\n")
		fixed, ierr := imports.Process(path, []byte(text), opts)
		if ierr != nil {
			// syntactically invalid output: keep the raw text so that the
			// compiler reports it; the program is then dropped as uncompilable
			fixed = []byte(text)
		}
		files[name] = string(fixed)
	}
	// glue
	decls, _, perr := batch.FuncDecls(files["verif_rand_gen.go"])
	if perr != nil {
		return files, 0, nil // compile step will report
	}
	var b strings.Builder
	fmt.Fprintf(&b, "package %s\n\nimport (\n\t\"reflect\"\n\n\t\"verif/c15/rt\"\n)\n\nvar _ = reflect.TypeOf\n\n// VerifC15 lists the generated functions and the tables of this program.\nfunc VerifC15() rt.Program {\n\treturn rt.Program{\n\t\tName: %q,\n\t\tNoJSON: %v,\n\t\tFuncs: []rt.Func{\n", pkgs[0].Types.Name(), p.Name, noJSON[p.Name])
	for _, fd := range decls {
		if fd.Recv != nil || !strings.HasPrefix(fd.Name.Name, "rand") || fd.Type.Params.NumFields() != 0 || fd.Type.Results.NumFields() != 1 {
			continue
		}
		fmt.Fprintf(&b, "\t\t\t{Name: %q, Call: func() any { return %s() }, New: func() any { return reflect.New(reflect.TypeOf(%s).Out(0)).Interface() }},\n", fd.Name.Name, fd.Name.Name, fd.Name.Name)
		nfuncs++
	}
	b.WriteString("\t\t},\n\t\tEnums: []rt.EnumTable{\n")
	alias := map[string]string{}
	qual := func(pkgPath string) string {
		if pkgPath == pkgs[0].PkgPath {
			return ""
		}
		if a, ok := alias[pkgPath]; ok {
			return a + "."
		}
		a := fmt.Sprintf("vp%d", len(alias))
		alias[pkgPath] = a
		return a + "."
	}
	for _, e := range p.Enums {
		if len(e.Exported) == 0 {
			continue
		}
		var cs []string
		for _, c := range e.Exported {
			cs = append(cs, qual(e.Pkg)+c)
		}
		fmt.Fprintf(&b, "\t\t\t{Exported: []any{%s}},\n", strings.Join(cs, ", "))
	}
	b.WriteString("\t\t},\n\t\tUnions: []rt.UnionTable{\n")
	for _, u := range p.Unions {
		if u.Pkg != pkgs[0].PkgPath && !ast.IsExported(u.Name) {
			continue
		}
		var ms []string
		for _, m := range u.Members {
			ms = append(ms, qual(u.Pkg)+m+"{}")
		}
		fmt.Fprintf(&b, "\t\t\t{Iface: reflect.TypeOf((*%s%s)(nil)).Elem(), Members: []any{%s}},\n", qual(u.Pkg), u.Name, strings.Join(ms, ", "))
	}
	b.WriteString("\t\t},\n\t}\n}\n")
	glue := b.String()
	if len(alias) > 0 {
		var imps []string
		for path, a := range alias {
			imps = append(imps, fmt.Sprintf("\t%s %q\n", a, path))
		}
		sort.Strings(imps)
		glue = strings.Replace(glue, "\t\"verif/c15/rt\"\n", "\t\"verif/c15/rt\"\n"+strings.Join(imps, ""), 1)
	}
	files["verif_glue.go"] = glue
	return files, nfuncs, nil
}

func main() {
	fs := flag.NewFlagSet("c15prep", flag.ExitOnError)
	repo := fs.String("repo", "", "scratch copy of the repository")
	verif := fs.String("verif", "/verif", "")
	out := fs.String("out", "", "batch directory")
	bin := fs.String("bin", "", "binary to build")
	tier := fs.String("tier", "quick", "")
	seed := fs.Uint64("seed", 1, "")
	fs.Parse(os.Args[1:])
	if err := batch.WriteModule(*out, *verif, *repo, nil); err != nil {
		fatal("%v", err)
	}
	var progs []*synth.Program
	kinds := map[string]string{}
	// (the repository's own testsource fixture is not used here: the union
	// wrappers generated for it do not compile - ItfType and ItfType2 share a
	// member and a two-letter prefix - which is C01's business)
	_ = testsourceProgram
	ents, _ := os.ReadDir(filepath.Join(*verif, "corpus"))
	for _, e := range ents {
		if !e.IsDir() {
			continue
		}
		if _, err := os.Stat(filepath.Join(*verif, "corpus", e.Name(), "verif-c15")); err != nil {
			continue
		}
		p, err := batch.LoadCorpus(filepath.Join(*verif, "corpus"), e.Name())
		if err != nil {
			fatal("%v", err)
		}
		p.Analyse = p.Analyse[:1]
		if _, err := os.Stat(filepath.Join(*verif, "corpus", e.Name(), "verif-no-json")); err == nil {
			noJSON[p.Name] = true
		}
		progs = append(progs, p)
		kinds[p.Name] = "corpus"
	}
	nsynth := 10
	if *tier == "thorough" {
		nsynth = 60
	}
	seeds := map[string]uint64{}
	for i := 0; i < nsynth; i++ {
		s := kernel.Mix(*seed, "C15-program", i)
		name := fmt.Sprintf("r%d", i)
		p := synth.Generate(kernel.NewRand(s), name, synth.Profile{RandSafe: true, MinSub: 0, MaxSub: 3, MaxDecls: 10, OneFile: true, Module: batch.Module + "/" + name})
		progs = append(progs, p)
		kinds[name] = "synth"
		seeds[name] = s
	}
	for _, p := range progs {
		if err := batch.WriteProgram(*out, p); err != nil {
			fatal("%v", err)
		}
	}
	info := rt.BatchInfo{}
	var kept []*synth.Program
	for _, p := range progs {
		files, nf, err := generate(*out, p)
		if err != nil {
			if kinds[p.Name] == "corpus" {
				info.Failed = append(info.Failed, rt.FailedProg{Name: p.Name, Why: err.Error()})
			}
			info.Dropped = append(info.Dropped, fmt.Sprintf("%s: %v", p.Name, err))
			os.Rename(filepath.Join(*out, p.Name), filepath.Join(*out, "..", "dropped-"+p.Name))
			continue
		}
		for name, text := range files {
			if werr := os.WriteFile(filepath.Join(*out, p.Name, name), []byte(text), 0o644); werr != nil {
				fatal("%v", werr)
			}
		}
		kept = append(kept, p)
		info.Programs = append(info.Programs, rt.ProgInfo{Name: p.Name, Kind: kinds[p.Name], Seed: seeds[p.Name], Funcs: nf})
	}
	// compile every program package on its own first: one that does not
	// compile is C01's business, it is dropped from this batch (and counted)
	var final []*synth.Program
	var finalInfo []rt.ProgInfo
	for i, p := range kept {
		if outb, err := batch.GoBuild(*out, os.DevNull, "./"+p.Name); err != nil {
			msg := strings.TrimSpace(string(outb))
			if len(msg) > 600 {
				msg = msg[:600] + "..."
			}
			if kinds[p.Name] == "corpus" {
				info.Failed = append(info.Failed, rt.FailedProg{Name: p.Name, Why: "the generated code does not compile: " + msg})
			}
			info.Dropped = append(info.Dropped, fmt.Sprintf("%s: generated code does not compile: %s", p.Name, msg))
			os.Rename(filepath.Join(*out, p.Name), filepath.Join(*out, "..", "dropped-"+p.Name))
			continue
		}
		final = append(final, p)
		finalInfo = append(finalInfo, info.Programs[i])
	}
	info.Programs = finalInfo
	if len(final)*2 < len(progs) {
		fatal("more than half of the programs were dropped:\n%s", strings.Join(info.Dropped, "\n"))
	}
	for _, d := range info.Dropped {
		fmt.Fprintln(os.Stderr, "c15 prep: dropped", d)
	}
	// main
	var b strings.Builder
	b.WriteString("package main\n\nimport (\n\t\"verif/c15/rt\"\n\n")
	for i, p := range final {
		fmt.Fprintf(&b, "\tp%d %q\n", i, batch.Module+"/"+p.Name)
	}
	b.WriteString(")\n\nfunc main() {\n\trt.Main([]rt.Program{\n")
	for i := range final {
		fmt.Fprintf(&b, "\t\tp%d.VerifC15(),\n", i)
	}
	ib, _ := json.Marshal(info)
	fmt.Fprintf(&b, "\t}, %q)\n}\n", string(ib))
	os.MkdirAll(filepath.Join(*out, "cmd"), 0o755)
	if err := os.WriteFile(filepath.Join(*out, "cmd", "main.go"), []byte(b.String()), 0o644); err != nil {
		fatal("%v", err)
	}
	if outb, err := batch.GoBuild(*out, *bin, "./cmd"); err != nil {
		fatal("link of the batch binary failed:\n%s", outb)
	}
	fmt.Fprintf(os.Stderr, "c15 prep: %d programs in the batch, %d dropped\n", len(final), len(info.Dropped))
}
