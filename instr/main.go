// instr creates the simulator's seams in a scratch copy of the repository by
// rewriting its syntax trees. It re-derives the seams from whatever the tree
// currently contains, so it keeps working when a range statement, a lock or
// an exec call is added, moved or removed.
//
//	-mode maprange : every `range` over a map in the non-test gomacro packages
//	                 iterates over verifsim.MapPairs(m, "<site>") instead
//	-mode conc     : in generator/formatters.go and cmd/*.go, sync primitives,
//	                 go statements and os/exec calls go through verifsim; the
//	                 command's main is renamed so that a driver can own main
//
// Sites that are met but cannot be rewritten are reported, never dropped
// silently.
package main

import (
	"bytes"
	"encoding/json"
	"flag"
	"fmt"
	"go/ast"
	"go/format"
	"go/token"
	"go/types"
	"os"
	"path/filepath"
	"sort"
	"strings"

	"golang.org/x/tools/go/ast/astutil"
	"golang.org/x/tools/go/packages"
)

const simPath = "github.com/benoitkugler/gomacro/verifsim"

type report struct {
	Mode           string   `json:"mode"`
	Sites          []string `json:"sites"`
	Uninstrumented []string `json:"uninstrumented_sites"`
	Mutating       []string `json:"map_mutated_in_loop"`
	Files          []string `json:"files"`
}

func main() {
	mode := flag.String("mode", "", "maprange|conc")
	repo := flag.String("repo", "", "scratch copy of the repository")
	rep := flag.String("report", "", "report file")
	flag.Parse()
	if *repo == "" {
		fatal("missing -repo")
	}
	cfg := &packages.Config{
		Dir:  *repo,
		Mode: packages.NeedName | packages.NeedFiles | packages.NeedSyntax | packages.NeedTypes | packages.NeedTypesInfo | packages.NeedCompiledGoFiles,
	}
	pkgs, err := packages.Load(cfg, "./...")
	if err != nil {
		fatal("load: %v", err)
	}
	r := &report{Mode: *mode}
	for _, pkg := range pkgs {
		rel := strings.TrimPrefix(pkg.PkgPath, "github.com/benoitkugler/gomacro")
		if strings.Contains(rel, "/test") || strings.HasPrefix(rel, "/testutils") || strings.HasPrefix(rel, "/verifsim") || strings.HasPrefix(rel, "/vkernel") {
			continue // fixtures, test helpers and our own run-time
		}
		if len(pkg.Errors) > 0 {
			fatal("package %s of the current tree does not type-check: %v", pkg.PkgPath, pkg.Errors[0])
		}
		for i, file := range pkg.Syntax {
			name := pkg.CompiledGoFiles[i]
			if strings.HasSuffix(name, "_test.go") {
				continue
			}
			relName, _ := filepath.Rel(*repo, name)
			changed := false
			switch *mode {
			case "maprange":
				changed = mapRange(pkg, file, relName, r)
			case "conc":
				if relName == filepath.Join("generator", "formatters.go") || strings.HasPrefix(relName, "cmd"+string(filepath.Separator)) {
					changed = conc(pkg, file, relName, r)
				}
			default:
				fatal("unknown mode %q", *mode)
			}
			if changed {
				var buf bytes.Buffer
				if err := format.Node(&buf, pkg.Fset, file); err != nil {
					fatal("print %s: %v", relName, err)
				}
				if err := os.WriteFile(name, buf.Bytes(), 0o644); err != nil {
					fatal("%v", err)
				}
				r.Files = append(r.Files, relName)
			}
		}
	}
	sort.Strings(r.Sites)
	sort.Strings(r.Files)
	if *rep != "" {
		b, _ := json.MarshalIndent(r, "", " ")
		os.WriteFile(*rep, b, 0o644)
	}
	fmt.Fprintf(os.Stderr, "instr %s: %d sites in %d files, %d not instrumented\n", *mode, len(r.Sites), len(r.Files), len(r.Uninstrumented))
}

func fatal(format string, a ...any) {
	fmt.Fprintf(os.Stderr, "instr: "+format+"\n", a...)
	os.Exit(2)
}

func sel(x, name string) *ast.SelectorExpr {
	return &ast.SelectorExpr{X: ast.NewIdent(x), Sel: ast.NewIdent(name)}
}

func isBlank(e ast.Expr) bool {
	id, ok := e.(*ast.Ident)
	return ok && id.Name == "_"
}

func mapRange(pkg *packages.Package, file *ast.File, relName string, r *report) bool {
	changed := false
	n := 0
	astutil.Apply(file, func(c *astutil.Cursor) bool {
		rs, ok := c.Node().(*ast.RangeStmt)
		if !ok {
			return true
		}
		tv, ok := pkg.TypesInfo.Types[rs.X]
		if !ok {
			return true
		}
		if _, isMap := tv.Type.Underlying().(*types.Map); !isMap {
			return true
		}
		pos := pkg.Fset.Position(rs.Pos())
		site := fmt.Sprintf("%s:%d", relName, pos.Line)
		if rs.Tok != token.DEFINE && rs.Tok != token.ILLEGAL && rs.Tok != token.ASSIGN {
			r.Uninstrumented = append(r.Uninstrumented, site)
			return true
		}
		// does the body insert into / delete from the ranged map?
		xs := exprString(pkg.Fset, rs.X)
		ast.Inspect(rs.Body, func(nd ast.Node) bool {
			switch s := nd.(type) {
			case *ast.CallExpr:
				if id, ok := s.Fun.(*ast.Ident); ok && id.Name == "delete" && len(s.Args) == 2 && exprString(pkg.Fset, s.Args[0]) == xs {
					r.Mutating = append(r.Mutating, site)
				}
			case *ast.AssignStmt:
				for _, l := range s.Lhs {
					if ix, ok := l.(*ast.IndexExpr); ok && exprString(pkg.Fset, ix.X) == xs {
						r.Mutating = append(r.Mutating, site)
					}
				}
			}
			return true
		})
		n++
		kv := fmt.Sprintf("vsKV%d_", n)
		call := &ast.CallExpr{Fun: sel("verifsim", "MapPairs"), Args: []ast.Expr{rs.X, &ast.BasicLit{Kind: token.STRING, Value: fmt.Sprintf("%q", site)}}}
		var lhs, rhs []ast.Expr
		if rs.Key != nil && !isBlank(rs.Key) {
			lhs = append(lhs, rs.Key)
			rhs = append(rhs, sel(kv, "K"))
		}
		if rs.Value != nil && !isBlank(rs.Value) {
			lhs = append(lhs, rs.Value)
			rhs = append(rhs, sel(kv, "V"))
		}
		tok := rs.Tok
		rs.X = call
		if len(lhs) == 0 {
			rs.Key, rs.Value, rs.Tok = nil, nil, token.ILLEGAL
		} else {
			rs.Key, rs.Value, rs.Tok = ast.NewIdent("_"), ast.NewIdent(kv), token.DEFINE
			assign := &ast.AssignStmt{Lhs: lhs, Tok: tok, Rhs: rhs}
			rs.Body.List = append([]ast.Stmt{assign}, rs.Body.List...)
		}
		r.Sites = append(r.Sites, site)
		changed = true
		return true
	}, nil)
	if changed {
		astutil.AddImport(pkg.Fset, file, simPath)
	}
	return changed
}

func exprString(fset *token.FileSet, e ast.Expr) string {
	var b bytes.Buffer
	format.Node(&b, fset, e)
	return b.String()
}

// pkgOf returns the import path an identifier used as selector base refers to.
func pkgOf(pkg *packages.Package, e ast.Expr) string {
	id, ok := e.(*ast.Ident)
	if !ok {
		return ""
	}
	if pn, ok := pkg.TypesInfo.Uses[id].(*types.PkgName); ok {
		return pn.Imported().Path()
	}
	return ""
}

var syncTypes = map[string]bool{"Mutex": true, "RWMutex": true, "WaitGroup": true, "Once": true, "Cond": true, "NewCond": true, "Locker": true, "OnceFunc": true, "OnceValue": true, "OnceValues": true}
var syncOther = map[string]bool{"Map": true, "Pool": true}
var execFuncs = map[string]bool{"Command": true, "LookPath": true, "CommandContext": true, "Cmd": true}

func conc(pkg *packages.Package, file *ast.File, relName string, r *report) bool {
	changed := false
	site := func(n ast.Node, what string) string {
		return fmt.Sprintf("%s:%d:%s", relName, pkg.Fset.Position(n.Pos()).Line, what)
	}
	nGo := 0
	inSelect := map[ast.Node]bool{}
	astutil.Apply(file, func(c *astutil.Cursor) bool {
		switch n := c.Node().(type) {
		case *ast.SelectorExpr:
			switch pkgOf(pkg, n.X) {
			case "sync":
				if syncTypes[n.Sel.Name] {
					r.Sites = append(r.Sites, site(n, "sync."+n.Sel.Name))
					n.X = ast.NewIdent("verifsim")
					changed = true
				} else if syncOther[n.Sel.Name] {
					r.Uninstrumented = append(r.Uninstrumented, site(n, "sync."+n.Sel.Name))
				}
			case "os/exec":
				if execFuncs[n.Sel.Name] {
					r.Sites = append(r.Sites, site(n, "exec."+n.Sel.Name))
					n.X = ast.NewIdent("verifsim")
					changed = true
				} else if n.Sel.Name != "Error" && n.Sel.Name != "ExitError" && n.Sel.Name != "ErrNotFound" && n.Sel.Name != "ErrDot" {
					r.Uninstrumented = append(r.Uninstrumented, site(n, "exec."+n.Sel.Name))
				}
			case "sync/atomic":
				r.Uninstrumented = append(r.Uninstrumented, site(n, "atomic."+n.Sel.Name))
			case "time":
				switch n.Sel.Name {
				case "Now", "Sleep", "Since", "Until":
					r.Sites = append(r.Sites, site(n, "time."+n.Sel.Name))
					n.X = ast.NewIdent("verifsim")
					changed = true
				case "After", "Tick", "NewTimer", "NewTicker", "AfterFunc":
					r.Uninstrumented = append(r.Uninstrumented, site(n, "time."+n.Sel.Name))
				}
			case "context":
				switch n.Sel.Name {
				case "WithTimeout", "WithDeadline":
					r.Sites = append(r.Sites, site(n, "context."+n.Sel.Name))
					n.X = ast.NewIdent("verifsim")
					changed = true
				}
			}
		case *ast.GoStmt:
			nGo++
			// go f(a, b)  =>  { t0, t1 := a, b; verifsim.Go(func() { f(t0, t1) }) }
			call := n.Call
			var stmts []ast.Stmt
			if len(call.Args) > 0 && !call.Ellipsis.IsValid() {
				var lhs []ast.Expr
				for i := range call.Args {
					lhs = append(lhs, ast.NewIdent(fmt.Sprintf("vsArg%d_%d", nGo, i)))
				}
				stmts = append(stmts, &ast.AssignStmt{Lhs: lhs, Tok: token.DEFINE, Rhs: call.Args})
				args := make([]ast.Expr, len(lhs))
				for i := range lhs {
					args[i] = ast.NewIdent(lhs[i].(*ast.Ident).Name)
				}
				call = &ast.CallExpr{Fun: call.Fun, Args: args}
			} else if call.Ellipsis.IsValid() {
				r.Uninstrumented = append(r.Uninstrumented, site(n, "go-with-ellipsis"))
				return true
			}
			lit := &ast.FuncLit{Type: &ast.FuncType{Params: &ast.FieldList{}}, Body: &ast.BlockStmt{List: []ast.Stmt{&ast.ExprStmt{X: call}}}}
			stmts = append(stmts, &ast.ExprStmt{X: &ast.CallExpr{Fun: sel("verifsim", "Go"), Args: []ast.Expr{lit}}})
			c.Replace(&ast.BlockStmt{List: stmts})
			r.Sites = append(r.Sites, site(n, "go"))
			changed = true
		case *ast.FuncDecl:
			if n.Recv == nil && n.Name.Name == "main" && pkg.Name == "main" {
				n.Name.Name = "GomacroMain"
				r.Sites = append(r.Sites, site(n, "main-renamed"))
				changed = true
			}
		case *ast.SelectStmt:
			// the communication of a select case must stay a plain channel
			// operation; a select with a default never blocks and is fine as
			// it is, a blocking one is outside what the simulator owns
			hasDefault := false
			for _, cc := range n.Body.List {
				if cl, ok := cc.(*ast.CommClause); ok {
					if cl.Comm == nil {
						hasDefault = true
					} else {
						inSelect[cl.Comm] = true
						switch cs := cl.Comm.(type) {
						case *ast.ExprStmt:
							inSelect[cs.X] = true
						case *ast.AssignStmt:
							for _, e := range cs.Rhs {
								inSelect[e] = true
							}
						}
					}
				}
			}
			_ = hasDefault // the statement itself is rewritten on the way up (post)
		case *ast.SendStmt:
			if inSelect[n] {
				return true
			}
			r.Sites = append(r.Sites, site(n, "chan-send"))
			c.Replace(&ast.ExprStmt{X: &ast.CallExpr{Fun: sel("verifsim", "Send"), Args: []ast.Expr{n.Chan, n.Value}}})
			changed = true
		case *ast.AssignStmt:
			// v, ok := <-ch
			if len(n.Lhs) == 2 && len(n.Rhs) == 1 && !inSelect[n] {
				if u, ok := n.Rhs[0].(*ast.UnaryExpr); ok && u.Op == token.ARROW {
					r.Sites = append(r.Sites, site(n, "chan-recv2"))
					n.Rhs[0] = &ast.CallExpr{Fun: sel("verifsim", "Recv2"), Args: []ast.Expr{u.X}}
					changed = true
				}
			}
		case *ast.UnaryExpr:
			if n.Op == token.ARROW && !inSelect[n] {
				r.Sites = append(r.Sites, site(n, "chan-recv"))
				c.Replace(&ast.CallExpr{Fun: sel("verifsim", "Recv"), Args: []ast.Expr{n.X}})
				changed = true
			}
		case *ast.CallExpr:
			if id, ok := n.Fun.(*ast.Ident); ok && id.Name == "close" && len(n.Args) == 1 {
				if _, isBuiltin := pkg.TypesInfo.Uses[id].(*types.Builtin); isBuiltin {
					r.Sites = append(r.Sites, site(n, "chan-close"))
					n.Fun = sel("verifsim", "Close")
					changed = true
				}
			}
		}
		return true
	}, func(c *astutil.Cursor) bool {
		// statements whose bodies must be instrumented as well are replaced on
		// the way up: Apply does not walk a replacement node
		switch n := c.Node().(type) {
		case *ast.RangeStmt:
			if tv, ok := pkg.TypesInfo.Types[n.X]; ok {
				if _, isChan := tv.Type.Underlying().(*types.Chan); isChan {
					// for v := range ch { body }  =>  for { v, ok := Recv2(ch); if !ok { break }; body }
					nGo++
					okName := fmt.Sprintf("vsOk%d_", nGo)
					var lhs ast.Expr = ast.NewIdent("_")
					tok := token.DEFINE
					if n.Key != nil {
						lhs = n.Key
						if n.Tok == token.ASSIGN {
							// v already declared: declare ok separately
							tok = token.ASSIGN
						}
					}
					var pre []ast.Stmt
					if tok == token.ASSIGN {
						pre = append(pre, &ast.DeclStmt{Decl: &ast.GenDecl{Tok: token.VAR, Specs: []ast.Spec{&ast.ValueSpec{Names: []*ast.Ident{ast.NewIdent(okName)}, Type: ast.NewIdent("bool")}}}})
					}
					recv := &ast.AssignStmt{Lhs: []ast.Expr{lhs, ast.NewIdent(okName)}, Tok: tok, Rhs: []ast.Expr{&ast.CallExpr{Fun: sel("verifsim", "Recv2"), Args: []ast.Expr{n.X}}}}
					brk := &ast.IfStmt{Cond: &ast.UnaryExpr{Op: token.NOT, X: ast.NewIdent(okName)}, Body: &ast.BlockStmt{List: []ast.Stmt{&ast.BranchStmt{Tok: token.BREAK}}}}
					body := append(append(pre, recv, brk), n.Body.List...)
					r.Sites = append(r.Sites, site(n, "chan-range"))
					c.Replace(&ast.ForStmt{Body: &ast.BlockStmt{List: body}})
					changed = true
				}
			}
		case *ast.SelectStmt:
			// select { case v, ok := <-a: A; case b <- x: B; default: D }  =>
			// switch vsSelN_ := verifsim.Select(hasDefault, SelRecv(a), SelSend(b, x)); vsSelN_.Index {
			// case 0: v, ok := verifsim.SelValue(vsSelN_, a), vsSelN_.Ok; A   case 1: B   case -1: D }
			nGo++
			name := fmt.Sprintf("vsSel%d_", nGo)
			hasDefault := false
			var args []ast.Expr
			var clauses []ast.Stmt
			k := 0
			for _, cc := range n.Body.List {
				cl := cc.(*ast.CommClause)
				var idx ast.Expr
				var pre []ast.Stmt
				if cl.Comm == nil {
					hasDefault = true
					idx = &ast.UnaryExpr{Op: token.SUB, X: &ast.BasicLit{Kind: token.INT, Value: "1"}}
				} else {
					idx = &ast.BasicLit{Kind: token.INT, Value: fmt.Sprint(k)}
					k++
					switch cs := cl.Comm.(type) {
					case *ast.SendStmt:
						args = append(args, &ast.CallExpr{Fun: sel("verifsim", "SelSend"), Args: []ast.Expr{cs.Chan, cs.Value}})
					case *ast.ExprStmt:
						u := cs.X.(*ast.UnaryExpr)
						args = append(args, &ast.CallExpr{Fun: sel("verifsim", "SelRecv"), Args: []ast.Expr{u.X}})
					case *ast.AssignStmt:
						u := cs.Rhs[0].(*ast.UnaryExpr)
						args = append(args, &ast.CallExpr{Fun: sel("verifsim", "SelRecv"), Args: []ast.Expr{u.X}})
						rhs := []ast.Expr{&ast.CallExpr{Fun: sel("verifsim", "SelValue"), Args: []ast.Expr{ast.NewIdent(name), u.X}}}
						if len(cs.Lhs) == 2 {
							rhs = append(rhs, sel(name, "Ok"))
						}
						pre = append(pre, &ast.AssignStmt{Lhs: cs.Lhs, Tok: cs.Tok, Rhs: rhs})
					}
				}
				clauses = append(clauses, &ast.CaseClause{List: []ast.Expr{idx}, Body: append(pre, cl.Body...)})
			}
			// (a select whose clauses all end in a terminating statement is
			// terminating; a switch needs a default clause for that)
			clauses = append(clauses, &ast.CaseClause{Body: []ast.Stmt{&ast.ExprStmt{X: &ast.CallExpr{Fun: ast.NewIdent("panic"), Args: []ast.Expr{&ast.BasicLit{Kind: token.STRING, Value: `"verifsim: select"`}}}}}})
			hd := "false"
			if hasDefault {
				hd = "true"
			}
			call := &ast.CallExpr{Fun: sel("verifsim", "Select"), Args: append([]ast.Expr{ast.NewIdent(hd)}, args...)}
			r.Sites = append(r.Sites, site(n, "select"))
			c.Replace(&ast.SwitchStmt{
				Init: &ast.AssignStmt{Lhs: []ast.Expr{ast.NewIdent(name)}, Tok: token.DEFINE, Rhs: []ast.Expr{call}},
				Tag:  sel(name, "Index"),
				Body: &ast.BlockStmt{List: clauses},
			})
			changed = true
		}
		return true
	})
	if changed {
		astutil.AddImport(pkg.Fset, file, simPath)
		for _, p := range []string{"sync", "os/exec", "time", "context"} {
			if !astutil.UsesImport(file, p) {
				astutil.DeleteImport(pkg.Fset, file, p)
			}
		}
	}
	return changed
}
