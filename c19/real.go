package main

import (
	"os"
	"path/filepath"
	"sort"
	"strings"

	"github.com/benoitkugler/gomacro/analysis"
	"github.com/benoitkugler/gomacro/generator"
	"github.com/benoitkugler/gomacro/generator/dart"
	"github.com/benoitkugler/gomacro/generator/go/gounions"
	"github.com/benoitkugler/gomacro/generator/go/randdata"
	"github.com/benoitkugler/gomacro/generator/go/sqlcrud"
	"github.com/benoitkugler/gomacro/generator/sql"
	"github.com/benoitkugler/gomacro/generator/typescript"

	"verif/c07/gen"
	"verif/kernel"
)

// realStreams returns the declaration lists the real generators produce for
// the corpus programs (loaded once per worker): the producer side of the seam
// with real traffic instead of synthetic streams.
var realCache map[string][]decl

func corpusPrograms(env *kernel.Env) [][3]string {
	out := [][3]string{{"repo-testsource", env.Repo, "testutils/testsource/defs.go testutils/testsource/other_file.go"}}
	ents, _ := os.ReadDir(filepath.Join(env.VerifDir, "corpus"))
	for _, e := range ents {
		if !e.IsDir() {
			continue
		}
		b, err := os.ReadFile(filepath.Join(env.VerifDir, "corpus", e.Name(), "verif-files.txt"))
		if err != nil {
			continue
		}
		if _, err := os.Stat(filepath.Join(env.VerifDir, "corpus", e.Name(), "verif-no-c07")); err == nil {
			continue // makes a generator die with a fatal stack overflow (not this property's business)
		}
		out = append(out, [3]string{e.Name(), filepath.Join(env.VerifDir, "corpus", e.Name()), string(b)})
	}
	return out
}

func realStreams(env *kernel.Env) map[string][]decl {
	if realCache != nil {
		return realCache
	}
	realCache = map[string][]decl{}
	add := func(name string, f func() []generator.Declaration) {
		defer func() { recover() }() // a generator that refuses the program produces no stream
		ds := f()
		var st []decl
		for _, d := range ds {
			st = append(st, decl{ID: d.ID, Content: d.Content, Prio: d.Priority})
		}
		if len(st) > 0 {
			realCache[name] = st
		}
	}
	for _, pr := range corpusPrograms(env) {
		l, err := gen.Load(pr[1], strings.Fields(pr[2]))
		if err != nil {
			kernel.Harnessf("corpus program %s does not load: %v", pr[0], err)
		}
		var anas []*analysis.Analysis
		for i, file := range l.Files {
			var ana *analysis.Analysis
			func() {
				defer func() { recover() }()
				ana = analysis.NewAnalysisFromFile(l.Pkgs[i], file)
			}()
			if ana == nil {
				continue
			}
			anas = append(anas, ana)
			key := pr[0] + "/" + filepath.Base(file)
			add(key+"/go/unions", func() []generator.Declaration { return gounions.Generate(ana) })
			add(key+"/go/sqlcrud", func() []generator.Declaration { return sqlcrud.Generate(ana, true) })
			add(key+"/go/randdata", func() []generator.Declaration { return randdata.Generate(ana) })
			add(key+"/sql", func() []generator.Declaration { return sql.Generate(ana) })
			add(key+"/typescript", func() []generator.Declaration { return typescript.Generate(ana) })
		}
		func() {
			defer func() { recover() }()
			for _, o := range dart.Generate(l.Root, anas) {
				content := o.Content
				add(pr[0]+"/dart/"+o.Filename, func() []generator.Declaration { return content })
			}
		}()
	}
	return realCache
}

func realStreamNames(env *kernel.Env) []string {
	var ns []string
	for n := range realStreams(env) {
		ns = append(ns, n)
	}
	sort.Strings(ns)
	return ns
}

// withoutConflicts drops the IDs that carry two different contents (outside the
// precondition of the property) and returns how many declarations went.
func withoutConflicts(st []decl) ([]decl, int) {
	content := map[string]string{}
	bad := map[string]bool{}
	for _, d := range st {
		if c, ok := content[d.ID]; ok && c != d.Content {
			bad[d.ID] = true
		}
		content[d.ID] = d.Content
	}
	if len(bad) == 0 {
		return st, 0
	}
	var out []decl
	n := 0
	for _, d := range st {
		if bad[d.ID] {
			n++
			continue
		}
		out = append(out, d)
	}
	return out, n
}
