// C19 - declaration assembly is a set-like, order-independent merge.
//
// The producer (any generator) hands a stream of declarations to the
// assembler. The simulator owns the delivery of that stream: it injects
// reordering and duplication faults between producer and consumer and checks
// the real generator.WriteDeclarations against a set-semantics reference
// model, for the undisturbed stream and for every faulted delivery.
package main

import (
	"encoding/json"
	"fmt"
	"sort"
	"strings"
	"sync"

	"github.com/benoitkugler/gomacro/generator"

	"verif/kernel"
)

type decl struct {
	ID      string `json:"id"`
	Content string `json:"content"`
	Prio    bool   `json:"prio"`
}

type fault struct {
	Kind string `json:"kind"` // shuffle | swap | reverse | dup | rotate
	A    int    `json:"a"`
	B    int    `json:"b"`
	Perm []int  `json:"perm,omitempty"`
}

type params struct {
	Stream []decl  `json:"stream"`
	Faults []fault `json:"faults"`
	Origin string  `json:"origin"` // synthetic | sweep | real:<program/file/target>
	// Concurrent > 1: that many goroutines assemble their own copy at once
	Concurrent int `json:"concurrent,omitempty"`
}

type c19 struct{}

func (c19) ID() string { return "C19" }

func (c19) Meta(env *kernel.Env) kernel.Meta {
	conflicts := map[string]int{}
	for _, name := range realStreamNames(env) {
		if _, n := withoutConflicts(realStreams(env)[name]); n > 0 {
			conflicts[name] = n
		}
	}
	return kernel.Meta{
		Extra: map[string]any{"real_streams": len(realStreamNames(env)), "real_stream_declarations_outside_precondition": conflicts},
		Rule:  "a run = one declaration stream (IDs from a small collision-prone alphabet, content a function of the ID, random priorities, length 0-14, or a systematic sweep of all short streams) delivered once undisturbed and once per generated fault sequence (shuffle, adjacent swap, block reversal, rotation, duplication and compositions); distinct = distinct (stream, fault sequence) pairs; non-trivial = the stream has >= 2 distinct IDs and the delivered order differs from the supplied one or contains a duplicate",
		Real:  []string{"generator.WriteDeclarations (current tree)", "for one run in 16 the producer too: the declaration list a real generator (unions, sqlcrud, randdata, sql, typescript, dart) emits for a corpus program"},
		Stub:  []string{"producer of the other runs: synthetic declaration streams"},
		Assumptions: []string{
			"precondition of the property: equal IDs carry equal content (streams are built that way)",
			"an ID supplied both with and without priority may be placed in either group, but the choice must not depend on delivery order",
		},
	}
}

func (c19) Runs(env *kernel.Env) int {
	if env.Tier == "thorough" {
		return 3000000
	}
	return 60000
}

var alphabet = []string{"", "a", "aa", "a_", "B", "zz_x", "ab_T", "aa_header", "b", "Z", "é", "a b", "10", "9"}

func contentFor(id string, r *kernel.Rand, style int) string {
	switch style {
	case 0:
		return "decl " + id
	case 1:
		return "" // empty content: a bare newline must still be emitted once
	case 2:
		return "line1 " + id + "\nline2"
	default:
		return id
	}
}

const sweepRuns = 20000

func (c19) Generate(env *kernel.Env, r *kernel.Rand, index int) any {
	var p params
	if index < sweepRuns {
		// systematic part: streams over a 3-letter alphabet with priority bit,
		// index decoded in mixed radix; delivery faults still random.
		p.Origin = "sweep"
		ids := []string{"a", "b", "aa"}
		x := index
		n := x%5 + 1
		x /= 5
		for i := 0; i < n; i++ {
			d := x % 6
			x /= 6
			id := ids[d%3]
			p.Stream = append(p.Stream, decl{ID: id, Content: "decl " + id, Prio: d >= 3})
		}
	} else if names := realStreamNames(env); index%16 == 5 && len(names) > 0 {
		// the declaration list a real generator produced for a corpus program
		name := names[r.Intn(len(names))]
		st, _ := withoutConflicts(realStreams(env)[name])
		p.Origin = "real:" + name
		p.Stream = append([]decl(nil), st...)
	} else {
		p.Origin = "synthetic"
		n := r.Intn(15)
		if r.Chance(1, 4) {
			n = r.Intn(4)
		}
		k := r.Range(1, len(alphabet))
		style := map[string]int{}
		for i := 0; i < n; i++ {
			id := alphabet[r.Intn(k)]
			st, ok := style[id]
			if !ok {
				st = r.Intn(4)
				if r.Chance(3, 4) {
					st = 0
				}
				style[id] = st
			}
			p.Stream = append(p.Stream, decl{ID: id, Content: contentFor(id, r, st), Prio: r.Chance(1, 3)})
		}
		// bias: make priorities consistent per ID most of the time
		if r.Chance(2, 3) {
			pr := map[string]bool{}
			for i, d := range p.Stream {
				if v, ok := pr[d.ID]; ok {
					p.Stream[i].Prio = v
				} else {
					pr[d.ID] = d.Prio
				}
			}
		}
	}
	nf := r.Range(1, 4)
	length := len(p.Stream)
	for i := 0; i < nf; i++ {
		f := fault{}
		switch r.Intn(5) {
		case 0:
			f.Kind = "shuffle"
			f.Perm = r.Perm(length + 4) // longer than needed: duplicates may have grown the stream
		case 1:
			f.Kind = "swap"
			f.A = r.Intn(length + 1)
		case 2:
			f.Kind = "reverse"
			f.A, f.B = r.Intn(length+1), r.Intn(length+1)
		case 3:
			f.Kind = "dup"
			f.A, f.B = r.Intn(length+1), r.Intn(length+2)
			length++
		case 4:
			f.Kind = "rotate"
			f.A = r.Intn(length + 1)
		}
		p.Faults = append(p.Faults, f)
	}
	if r.Chance(1, 25) && len(p.Stream) > 3 {
		p.Concurrent = r.Range(2, 8)
	}
	if r.Chance(1, 40) && len(p.Stream) > 0 {
		// a flood: one declaration requested hundreds of times (a shared helper
		// asked for by every field), around the sizes where small counters wrap
		p.Faults = append(p.Faults, fault{Kind: "flood", A: r.Intn(len(p.Stream)), B: kernel.Pick(r, []int{254, 255, 256, 257, 300, 511, 512, 1000, 65535, 65536, 65537})})
	}
	return p
}

// model is the reference: set semantics. mixedAsPriority selects where an ID
// supplied with both priorities goes.
func model(stream []decl, mixedAsPriority bool) string {
	type info struct {
		content  string
		any, all bool
	}
	m := map[string]*info{}
	for _, d := range stream {
		e := m[d.ID]
		if e == nil {
			m[d.ID] = &info{d.Content, d.Prio, d.Prio}
			continue
		}
		e.any = e.any || d.Prio
		e.all = e.all && d.Prio
	}
	var prio, rest []string
	for id, e := range m {
		p := e.all
		if mixedAsPriority {
			p = e.any
		}
		if p {
			prio = append(prio, id)
		} else {
			rest = append(rest, id)
		}
	}
	sort.Strings(prio)
	sort.Strings(rest)
	var b strings.Builder
	for _, id := range append(prio, rest...) {
		b.WriteString(m[id].content)
		b.WriteByte('\n')
	}
	return b.String()
}

func apply(stream []decl, f fault, fired func(string)) []decl {
	n := len(stream)
	out := append([]decl(nil), stream...)
	switch f.Kind {
	case "shuffle":
		if n < 2 {
			return out
		}
		// restrict the stored permutation to [0,n)
		var p []int
		for _, v := range f.Perm {
			if v < n {
				p = append(p, v)
			}
		}
		if len(p) != n {
			return out
		}
		for i, j := range p {
			out[i] = stream[j]
		}
		fired("shuffle")
	case "swap":
		if n < 2 {
			return out
		}
		i := f.A % (n - 1)
		out[i], out[i+1] = out[i+1], out[i]
		fired("adjacent_swap")
	case "reverse":
		if n < 2 {
			return out
		}
		a, b := f.A%n, f.B%n
		if a > b {
			a, b = b, a
		}
		if a == b {
			a, b = 0, n-1
		}
		for i, j := a, b; i < j; i, j = i+1, j-1 {
			out[i], out[j] = out[j], out[i]
		}
		fired("block_reverse")
	case "dup":
		if n < 1 {
			return out
		}
		src := stream[f.A%n]
		at := f.B % (n + 1)
		out = append(out[:at:at], append([]decl{src}, stream[at:]...)...)
		fired("duplicate")
	case "flood":
		if n < 1 {
			return out
		}
		src := stream[f.A%n]
		for i := 0; i < f.B; i++ {
			out = append(out, src)
		}
		// spread the copies: rotate by a third
		k := len(out) / 3
		out = append(append([]decl(nil), out[k:]...), out[:k]...)
		fired("flood")
	case "rotate":
		if n < 2 {
			return out
		}
		k := f.A % n
		if k == 0 {
			k = 1
		}
		out = append(append([]decl(nil), stream[k:]...), stream[:k]...)
		fired("rotate")
	}
	return out
}

func toReal(stream []decl) []generator.Declaration {
	out := make([]generator.Declaration, len(stream))
	for i, d := range stream {
		out[i] = generator.Declaration{ID: d.ID, Content: d.Content, Priority: d.Prio}
	}
	return out
}

func ids(stream []decl) string {
	var b strings.Builder
	for i, d := range stream {
		if i >= 40 {
			fmt.Fprintf(&b, "... (%d declarations)", len(stream))
			break
		}
		if d.Prio {
			b.WriteByte('!')
		}
		fmt.Fprintf(&b, "%q ", d.ID)
	}
	return b.String()
}

func (c19) Execute(env *kernel.Env, raw json.RawMessage, ch *kernel.Choices) *kernel.Outcome {
	var p params
	if err := json.Unmarshal(raw, &p); err != nil {
		kernel.Harnessf("params: %v", err)
	}
	out := &kernel.Outcome{}
	viol := func(clause, detail string) *kernel.Outcome {
		out.Violation = &kernel.Violation{Property: "C19", Clause: clause, Signature: "generator.WriteDeclarations", Detail: detail}
		return out
	}
	// precondition
	byID := map[string]string{}
	for _, d := range p.Stream {
		if c, ok := byID[d.ID]; ok && c != d.Content {
			kernel.Harnessf("generated stream violates the precondition for ID %q", d.ID)
		}
		byID[d.ID] = d.Content
	}
	mAny, mAll := model(p.Stream, true), model(p.Stream, false)
	supplied := toReal(p.Stream)
	base := generator.WriteDeclarations(supplied)
	out.Steps++
	if base != mAny && base != mAll {
		return viol("assembly_differs_from_set_model", fmt.Sprintf("undisturbed stream %s\nreal output:  %q\nmodel output: %q", ids(p.Stream), base, mAny))
	}
	if mAny != mAll {
		out.Probe("id_with_both_priorities")
	}
	// the returned text belongs to the caller: assembling another list later
	// in the same process (as the command does, one list per output file,
	// all texts kept until they are saved) must not change it
	kept := strings.Clone(base)
	decoy := make([]generator.Declaration, 0, len(supplied)+1)
	for _, d := range supplied {
		decoy = append(decoy, generator.Declaration{ID: d.ID, Content: strings.ToUpper(d.Content) + "#other list", Priority: !d.Priority})
	}
	decoy = append(decoy, generator.Declaration{ID: "~decoy", Content: strings.Repeat("x", len(base))})
	generator.WriteDeclarations(decoy)
	out.Steps++
	if base != kept {
		return viol("returned_text_changes_after_later_assembly", fmt.Sprintf("supplied %s\ntext as returned: %q\nthe same string after another list was assembled: %q", ids(p.Stream), kept, base))
	}
	// history of two calls: assembling the very same list again (the
	// assembler may reorder the caller's slice, it must not lose or replace
	// declarations in it) gives the same text
	again := generator.WriteDeclarations(supplied)
	out.Steps++
	if again != base {
		return viol("second_assembly_of_same_list_differs", fmt.Sprintf("supplied %s\nfirst call:  %q\nsecond call on the same slice: %q", ids(p.Stream), base, again))
	}
	// history with a caller edit in between: one element of the slice just
	// assembled is promoted / demoted or renamed in place (keeping the
	// precondition), then the slice is assembled again: the text must be the one
	// a fresh list with the same (ID, content, priority) values gives
	if n := len(supplied); n > 0 {
		k := int(kernel.Hash64(base) % uint64(n))
		edited := append([]generator.Declaration(nil), supplied...)
		// all copies of that ID are edited alike
		target, rename := edited[k].ID, len(base)%2 == 1
		fresh := make([]generator.Declaration, len(edited))
		for i := range edited {
			if supplied[i].ID == target {
				if rename {
					supplied[i].ID = target + "~edited"
				} else {
					supplied[i].Priority = !supplied[i].Priority
				}
			}
			fresh[i] = generator.Declaration{ID: supplied[i].ID, Content: supplied[i].Content, Priority: supplied[i].Priority}
		}
		got := generator.WriteDeclarations(supplied)
		want := generator.WriteDeclarations(fresh)
		out.Steps += 2
		if got != want {
			return viol("assembly_after_caller_edit_differs", fmt.Sprintf("supplied %s\nafter the first assembly the caller edited declaration %q in place (rename=%v, else priority flipped) and assembled the same slice again\nsame slice:  %q\nfresh list with equal values: %q", ids(p.Stream), target, rename, got, want))
		}
	}
	delivered := p.Stream
	for _, f := range p.Faults {
		delivered = apply(delivered, f, out.Fault)
		got := generator.WriteDeclarations(toReal(delivered))
		out.Steps++
		if got != base {
			return viol("result_depends_on_delivery", fmt.Sprintf("supplied  %s\ndelivered %s (after %s)\noutput for supplied order:  %q\noutput for delivered order: %q", ids(p.Stream), ids(delivered), f.Kind, base, got))
		}
	}
	// the assembler is a function of its argument: several goroutines assembling
	// their own copies at the same time get the same text (uncontrolled
	// cross-check: real goroutines, it can only fail if calls share state)
	if p.Concurrent > 1 {
		results := make([]string, p.Concurrent)
		var wg sync.WaitGroup
		for g := 0; g < p.Concurrent; g++ {
			wg.Add(1)
			go func(g int) {
				defer wg.Done()
				defer func() {
					if r := recover(); r != nil {
						results[g] = fmt.Sprintf("PANIC: %v", r)
					}
				}()
				for rep := 0; rep < 20; rep++ {
					results[g] = generator.WriteDeclarations(toReal(p.Stream))
					if results[g] != base {
						return
					}
				}
			}(g)
		}
		wg.Wait()
		out.Steps += int64(p.Concurrent)
		out.Probe("concurrent_assemblies")
		for _, r := range results {
			if r != base {
				return viol("concurrent_assembly_differs", fmt.Sprintf("supplied %s\nalone:      %q\nconcurrent: %q", ids(p.Stream), base, r))
			}
		}
	}
	if len(byID) >= 2 && ids(delivered) != ids(p.Stream) {
		out.Keys = append(out.Keys, ids(p.Stream)+"=>"+ids(delivered))
	}
	if len(byID) == 0 {
		out.Probe("empty_stream")
	}
	if strings.HasPrefix(p.Origin, "real:") {
		out.Probe("real_generator_stream")
		out.Keys = append(out.Keys, "@realstream:"+p.Origin)
	}
	clip := func(s string) string {
		if len(s) > 400 {
			return s[:400] + "..."
		}
		return s
	}
	out.Sample = map[string]any{"origin": p.Origin, "supplied": clip(ids(p.Stream)), "delivered": clip(ids(delivered)), "output": clip(base)}
	return out
}

func (c19) Shrink(raw json.RawMessage) []json.RawMessage {
	var p params
	json.Unmarshal(raw, &p)
	var out []json.RawMessage
	for _, fs := range kernel.ShrinkList(p.Faults) {
		q := p
		q.Faults = fs
		out = append(out, kernel.MustJSON(q))
	}
	for _, st := range kernel.ShrinkList(p.Stream) {
		q := p
		q.Stream = st
		out = append(out, kernel.MustJSON(q))
	}
	// simpler contents / priorities
	for i := range p.Stream {
		if p.Stream[i].Prio {
			q := p
			q.Stream = append([]decl(nil), p.Stream...)
			q.Stream[i].Prio = false
			out = append(out, kernel.MustJSON(q))
		}
	}
	return out
}

func main() { kernel.Main(c19{}) }
