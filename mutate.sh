#!/bin/bash
# ./mutate.sh <patch.diff> <property> [tier] : apply a patch to a scratch copy
# of /repo and run the property's check against it (VERIF_REPO). Prints the
# check's exit status. Used by the sensitivity self-test and for seeded changes.
set -u
VERIF="$(cd "$(dirname "${BASH_SOURCE[0]}")" && pwd)"
PATCH="$(readlink -f "$1")"; PROP="$2"; TIER="${3:-quick}"
M="$(mktemp -d /var/tmp/verif.mut.XXXXXX)"
trap 'rm -rf "$M"' EXIT
rsync -a --exclude .git /repo/ "$M/repo/"
(cd "$M/repo" && patch -p1 --no-backup-if-mismatch -s < "$PATCH") || { echo "PATCH-FAILED $PATCH"; exit 3; }
VERIF_REPO="$M/repo" VERIF_MUTANT=1 "$VERIF/check" "$PROP" "$TIER" -evidence "$M/evidence.json" "${@:4}"
rc=$?
echo "mutant $(basename "$PATCH") property=$PROP tier=$TIER exit=$rc"
exit $rc
