#!/bin/bash
# tools/run-benign.sh [PROP...] : applies every property-preserving change under benign/<PROP>/*/patch.diff
# to a scratch copy of /repo and runs the property's quick check against it: each must exit 0
# (a VIOLATION on one of them is a false alarm of the check, or the change is not benign after all).
cd "$(dirname "${BASH_SOURCE[0]}")/.."
bad=0
for P in ${@:-C05 C07 C15 C17 C19 C20}; do
	for d in benign/$P/*/; do
		[ -f "$d/patch.diff" ] || continue
		n=$(basename "$d")
		out=$(./mutate.sh "$d/patch.diff" "$P" quick 2>&1)
		rc=$(echo "$out" | grep -o "exit=[0-9]*" | tail -1)
		[ -z "$rc" ] && rc=$(echo "$out" | grep -o "PATCH-FAILED" | head -1)
		cl=$(echo "$out" | grep -o "clause [a-z_]*" | sort -u | tr '\n' ',')
		echo "$P/$n $rc $cl"
		[ "$rc" = "exit=0" ] || bad=$((bad+1))
	done
done
echo "benign changes not passed: $bad"
[ $bad -eq 0 ]
