package main

import (
	"os"

	"golang.org/x/tools/imports"
)

func main() {
	b, _ := os.ReadFile(os.Args[1])
	out, err := imports.Process(os.Args[1], b, nil)
	if err != nil {
		panic(err)
	}
	os.WriteFile(os.Args[1], out, 0o644)
}
