#!/bin/bash
# tools/selftest-determinism.sh <ID> [runs] : executes the same seeded runs of
# a property in fresh processes under different worker counts and GOMAXPROCS
# and diffs the per-run event logs (run seed, hash of the generated
# parameters, hash of the decision trace, hash of the verdict, hash of the
# distinctness keys, logical steps). Exit 0 = identical, 2 = divergence.
set -u
VERIF="$(cd "$(dirname "${BASH_SOURCE[0]}")/.." && pwd)"
ID="$1"; RUNS="${2:-400}"
T="$(mktemp -d /var/tmp/verif.det.XXXXXX)"
trap 'rm -rf "$T"' EXIT
i=0
for cfg in "16 2" "5 1" "3 16" "16 4" "7 2" "1 1"; do
	set -- $cfg
	i=$((i+1))
	VERIF_WORKER_GOMAXPROCS=$2 "$VERIF/check" "$ID" quick -runs "$RUNS" -budget 1200 -workers "$1" -tracelog "$T/log$i" -evidence "$T/ev$i.json" >"$T/out$i" 2>&1
	rc=$?
	if [ $rc -ne 0 ]; then echo "determinism self-test: run $i ($cfg) exited $rc"; tail -5 "$T/out$i"; exit 2; fi
	cat "$T"/log$i.* | sort -n > "$T/merged$i"
	echo "config workers=$1 GOMAXPROCS=$2: $(wc -l < "$T/merged$i") runs logged"
done
for j in 2 3 4 5 6; do
	if ! diff -q "$T/merged1" "$T/merged$j" >/dev/null; then
		echo "DIVERGENCE between configuration 1 and $j:"; diff "$T/merged1" "$T/merged$j" | head -10; exit 2
	fi
done
echo "determinism self-test $ID: 6 executions of $RUNS runs identical"
