#!/bin/bash
# tools/selftest-mutants.sh [tier]: runs every patch of mutants/ (named <id>-<what>.diff)
# against the check of its property on a scratch copy and requires a VIOLATION (exit 1).
cd "$(dirname "${BASH_SOURCE[0]}")/.."
TIER="${1:-quick}"; bad=0
for m in mutants/*.diff; do
	id=$(basename "$m" | cut -d- -f1 | tr a-z A-Z)
	out=$(./mutate.sh "$m" "$id" "$TIER" 2>&1)
	rc=$(echo "$out" | grep -o "exit=[0-9]*" | tail -1)
	cl=$(echo "$out" | grep -o "clause [a-z_]*" | sort -u | tr '\n' ',')
	echo "$(basename "$m") $rc $cl"
	[ "$rc" = "exit=1" ] || bad=$((bad+1))
done
echo "mutants not detected: $bad"
[ $bad -eq 0 ]
