package main

import (
	"fmt"
	"os"

	"verif/kernel"
	"verif/synth"
)

func main() {
	i := 45
	fmt.Sscan(os.Args[1], &i)
	seed := uint64(1)
	if len(os.Args) > 3 {
		fmt.Sscan(os.Args[3], &seed)
	}
	s := kernel.Mix(seed, "C15-program", i)
	name := fmt.Sprintf("r%d", i)
	p := synth.Generate(kernel.NewRand(s), name, synth.Profile{RandSafe: true, MinSub: 0, MaxSub: 3, MaxDecls: 10, OneFile: true, Module: "example.com/vs/" + name})
	synth.WriteTo(p, os.Args[2])
	for _, u := range p.Unions {
		fmt.Println(u.Name, u.Members)
	}
}
