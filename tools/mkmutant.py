#!/usr/bin/env python3
"""mkmutant.py <name> <file> <old> <new> [<file> <old> <new> ...]: writes mutants/<name>.diff (patch against /repo)."""
import sys, os, subprocess, tempfile, shutil
name = sys.argv[1]
args = sys.argv[2:]
tmp = tempfile.mkdtemp(prefix="mkmut.")
diff = ""
try:
    files = {}
    for i in range(0, len(args), 3):
        f, old, new = args[i:i+3]
        src = files.get(f) or open(os.path.join("/repo", f)).read()
        if old not in src:
            sys.exit(f"pattern not found in {f}: {old!r}")
        files[f] = src.replace(old, new, 1)
    for f, content in files.items():
        p = os.path.join(tmp, "new")
        open(p, "w").write(content)
        r = subprocess.run(["diff", "-u", "--label", "a/" + f, "--label", "b/" + f, os.path.join("/repo", f), p], capture_output=True, text=True)
        diff += r.stdout
finally:
    shutil.rmtree(tmp)
out = os.path.join(os.path.dirname(os.path.dirname(os.path.abspath(__file__))), "mutants", name + ".diff")
open(out, "w").write(diff)
print("wrote", out)
