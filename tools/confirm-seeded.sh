#!/bin/bash
# tools/confirm-seeded.sh <PROP> <name> : confirms a seeded change in a fresh
# scratch worktree of /repo: the demonstration passes on HEAD; with the patch
# the project builds, the existing tests pass and the demonstration fails.
set -u
PROP="$1"; NAME="$2"
SRC="/verif/seeded/$PROP/$NAME"
WT="$(mktemp -d /tmp/confirm.XXXXXX)"; rmdir "$WT"
export GOFLAGS=-mod=mod GOPROXY=off GOSUMDB=off GOTOOLCHAIN=local
git -C /repo worktree add -q --detach "$WT" HEAD || exit 3
cleanup() { git -C /repo worktree remove --force "$WT" 2>/dev/null; rm -rf "$WT"; }
trap cleanup EXIT
mkdir -p "$WT/seeded/$NAME" && cp -r "$SRC"/* "$WT/seeded/$NAME/"
cd "$WT"
res="demo_on_head="
if bash "seeded/$NAME/demo-run.sh" >"$WT/.demo-head.log" 2>&1; then res+="pass"; else res+="FAIL"; fi
git checkout -q -- . 2>/dev/null
git apply "seeded/$NAME/patch.diff" || { echo "$PROP/$NAME: patch does not apply"; exit 3; }
res+=" build="
if go build ./analysis/ ./analysis/sql/ ./analysis/httpapi/ ./generator/... ./cmd/ >"$WT/.build.log" 2>&1; then res+="ok"; else res+="FAIL"; fi
rm -f analysis/sql/test/crud_gen.go
res+=" tests="
if go test -vet=off -count=1 ./analysis/ ./analysis/httpapi/ ./generator/ ./generator/dart/ ./generator/sql/ ./generator/go/... >"$WT/.tests.log" 2>&1; then res+="pass"; else res+="FAIL"; fi
git checkout -q -- . 2>/dev/null; git apply "seeded/$NAME/patch.diff"
res+=" demo_with_patch="
if bash "seeded/$NAME/demo-run.sh" >"$WT/.demo-patch.log" 2>&1; then res+="PASS(unexpected)"; else res+="fail"; fi
echo "$PROP/$NAME: $res"
case "$res" in *FAIL*|*unexpected*) tail -5 "$WT"/.*.log; exit 1;; esac
