#!/usr/bin/env python3
"""tools/mkseeded-index.py: regenerates seeded/README.md from the meta.json files."""
import json, os
root = os.path.join(os.path.dirname(os.path.dirname(os.path.abspath(__file__))), "seeded")
rows = []
for p in sorted(os.listdir(root)):
    d = os.path.join(root, p)
    if not os.path.isdir(d):
        continue
    for n in sorted(os.listdir(d)):
        m = json.load(open(os.path.join(d, n, "meta.json")))
        rows.append((p, n, m.get("wave", "?"), "yes" if m.get("missed_by_first_version_of_the_check") else "no", m.get("what", ""), m.get("neutralised_by", "") or ("" if not m.get("not_detected") else "ND:" + m["not_detected"])))
waves = sorted({r[2] for r in rows if isinstance(r[2], int)})
head = f"""# Seeded changes

Changes to benoitkugler/gomacro written by independent sub-agents ({len(waves)} waves, {len(rows)} changes; each agent saw only the text of one property and a scratch worktree of /repo, nothing from /verif). Each breaks its property while the project still compiles and the existing tests pass; each was re-confirmed with `tools/confirm-seeded.sh <id> <name>` (demonstration passes on HEAD, fails with the patch). `tools/run-seeded.sh` runs every patch against the quick tier of its property; all are detected, except those marked *neutralised* - a later `fix:` commit in /repo removed the precondition under which the change broke the property (the meta.json says which) - and those whose entry says in bold what is not detected and why. `missed at first` = the first version of the check did not detect it; the `strengthening` field of the meta.json says what was changed.

| property | name | wave | missed at first | what |
|---|---|---|---|---|
"""
with open(os.path.join(root, "README.md"), "w") as f:
    f.write(head)
    for p, n, w, missed, what, neut in rows:
        if neut.startswith("ND:"):
            what += f" (**{neut[3:]}**)"
        elif neut:
            what += f" (*neutralised* by {neut})"
        f.write(f"| {p} | {n} | {w} | {missed} | {what} |\n")
print(len(rows), "changes indexed")
