package main

import (
	"fmt"
	"os"

	"verif/c07/gen"
)

func main() {
	l, err := gen.Load(os.Args[1], os.Args[2:])
	if err != nil {
		panic(err)
	}
	all := l.GenerateAll()
	iso := l.GenerateIsolated()
	for _, n := range gen.Names(all) {
		if all[n] != iso[n] {
			fmt.Println("DIFF", n, len(all[n]), len(iso[n]))
		}
	}
	fmt.Println(len(all), len(iso))
}
