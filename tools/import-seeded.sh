#!/bin/bash
# tools/import-seeded.sh <PROP> <name> <srcdir> <mode> [dir] [pattern] [goflags] [env]: copies a sub-agent's
# deliverable into seeded/<PROP>/<name>/ and writes its demo-run.sh.
#  mode copy: demo_test.go is copied into <dir> and run with -run <pattern>
#  mode inplace: go test ./seeded/<name>/     mode gorun: go run ./seeded/<name>/demo
P=$1; N=$2; src=$3; mode=$4; dir=${5:-}; pat=${6:-}; flags=${7:-}; envs=${8:-}
cd "$(dirname "${BASH_SOURCE[0]}")/.."
dst=seeded/$P/$N
[ -e $dst ] && { echo "exists $dst"; exit 0; }
mkdir -p $dst; cp -r $src/* $dst/
{ echo '#!/bin/bash'; echo "# run from the root of a checkout of benoitkugler/gomacro that contains this directory as seeded/$N/"; echo 'export GOFLAGS=-mod=mod GOPROXY=off GOSUMDB=off GOTOOLCHAIN=local';
case $mode in
 copy) echo "cp seeded/$N/demo_test.go $dir/zz_seeded_demo_test.go; $envs go test -vet=off -count=1 $flags -run '$pat' ./$dir/; rc=\$?; rm -f $dir/zz_seeded_demo_test.go; exit \$rc";;
 inplace) echo "go test -vet=off -count=1 ./seeded/$N/";;
 inplacedemo) echo "go test -vet=off -count=1 ./seeded/$N/demo/";;
 gorun) echo "go run ./seeded/$N/demo";;
esac; } > $dst/demo-run.sh; chmod +x $dst/demo-run.sh
