#!/usr/bin/env python3
"""Writes /verif/MANIFEST.json from the table below and validates it."""
import json, os, sys
V = os.path.dirname(os.path.dirname(os.path.abspath(__file__)))

CLAIMED = {
 "C19": dict(
  technique="deterministic simulation: seeded reorder/duplicate delivery faults on the declaration stream, checked against a set-semantics reference model",
  text="Seeded simulated runs: each run supplies one declaration stream to the real assembler undisturbed and under a generated sequence of delivery faults (shuffle, adjacent swap, block reversal, rotation, duplication); every output is compared with a reference model (group by ID, priority group first, increasing ID order, content once + newline), the same slice is assembled twice, and one run in 16 uses the declaration list a real generator emits for a corpus program. Sampling, not proof: a clean batch is evidence that no order or duplication dependence exists for streams up to length ~18.",
  note="Trusted: the 40-line reference model in c19/main.go; precondition 'equal IDs carry equal content' is guaranteed by the stream generator. An ID supplied with both priority values may land in either group (the property does not say) but must not depend on delivery order.",
  ref="3 (C19)"),
 "C20": dict(
  technique="deterministic simulation: cooperative seeded scheduler over AST-instrumented formatters.go/cmd (sync, go, os/exec behind seams) x simulated tool world with missing/failing tools; history oracle",
  text="Seeded simulated runs: 1-8 concurrent callers on one fresh formatter cache (and the real saveOutputs on the package-level cache) are interleaved by a PRNG-driven cooperative scheduler that owns every lock, wait-group, spawn, channel and external-command point; the external tools are a simulated world (each tool installed / missing / probe fails / run fails, `which` present or not; all 512 worlds visited). The recorded exec history is checked: probe at most once per tool and cache, exactly one formatter run per request when usable, no run + nil error when absent, error propagated when the run fails, every request completes, lock discipline. Failing runs fail as a genuine *exec.ExitError, as a signal death or as a start failure. Two uncontrolled tiers repeat the workload free-running under the race detector, with a stubbed exec and with real stand-in processes on the unmodified package. Sampling of interleavings, not exhaustive.",
  note="Trusted: the cooperative scheduler and sync/exec replacements in simrt/ (yield points only at synchronisation and exec operations, so data races on plain memory are visible only through their consequences - the race-detector tiers cover raw races); classification of a command as probe or run by whether it names a requested file.",
  ref="3 (C20)"),
 "C07": dict(
  technique="deterministic simulation: map iteration order (the code's only scheduler) behind an AST-inserted seam, seeded permutation schedules vs canonical-order run; plus fresh-process sampling",
  text="Every range over a map in the non-test gomacro packages of a scratch copy is rewritten to iterate in an order the simulator chooses. Per program (repo fixtures, corpus, synthesised multi-package modules) the canonical-order outputs of all seven targets are compared byte for byte with the outputs under seeded schedules that reverse, rotate or shuffle a random subset of sites; failures are minimised to the culpable range statement and replay exactly. A controlled command tier runs the real Config.run (load, analyse, every action, saveOutputs) of a copy instrumented with both seams under the cooperative scheduler, so that map orders and goroutine picks are seeded. Uncontrolled cross-checks run the pristine code in fresh processes at GOMAXPROCS 1/4/16, reload the same program 30-300 times in one process (go/packages' parser goroutines decide token.Pos order) and run the real CLI, comparing hashes: they sample what the seam cannot own. Sampling over programs and schedules, not proof.",
  note="Trusted: the instrumenter's rewrite (snapshot of the map, canonical sort by key rendering, then permutation) is a legal iteration order of the original loop as long as the loop body does not insert into or delete from the ranged map (sites that do are listed in the evidence). Pointer-value dependence is only visible through the fresh-process tier.",
  ref="3 (C07)"),
 "C17": dict(
  technique="deterministic simulation of the loader's environment: seeded file-system layouts, working directories and argument spellings with injected environment faults, real LoadSources + go list against it",
  text="Each seeded run builds a module tree on a scratch file system (package directories from prefix-colliding families, nesting, outer directories with spaces/dots), picks a working directory and a spelling for every argument, optionally injects one environment fault (missing file, non-Go file, type error in the root or an imported package, directory in place of a file, dangling symlink, empty .go file, go tool unavailable), and calls the real analysis.LoadSources. Oracle: fault-free -> no error, i-th package contains the i-th file and has the expected import path, root is an existing directory and a component-wise ancestor of every file; with a fault -> an error, never a panic. Sampling of layouts, not proof.",
  note="Trusted: the generator's own model of which import path a directory has (module path + relative dir). The layout dimension is generated input; the claim rests on the interaction of real os/filepath/go list with the path algorithm, which only a real tree can judge.",
  ref="3 (C17)"),
 "C15": dict(
  technique="deterministic simulation of the generated code's only input, the math/rand global source: seeded call histories in child processes, reflection oracle from source-derived tables, termination watchdog",
  text="The real randdata and gounions generators run on fixed corpus programs (including cyclic type graphs) and seeded synthesised programs; the generated files are compiled unmodified into one binary. Each simulated run is a child process that calls every generated rand<T> function 32 times, each call under rand.Seed(s) with s derived from the run seed, and checks every returned value by reflection against tables derived from the source (enum constants, union members, skip tags): no panic, enum values exported constants, unions non-nil members, containers populated in at least one call, skipped fields zero, values vary where the type admits two, JSON round trip. Termination is bounded liveness: a stack overflow (64 MiB) or a call exceeding 10 s is attributed to the last logged call. Sampling over programs and seeds.",
  note="Trusted: the reflection walker and the conservative 'admits two values' rule in c15/rt; synthesised programs stay inside the profile where the generated code compiles (a program whose generated code does not compile is dropped and counted - that is C01, not claimed); go1.23 math/rand seeding.",
  ref="3 (C15)"),
 "C05": dict(
  technique="deterministic simulation: seeded call histories of the generated CRUD code against a simulated PostgreSQL loaded from the generated schema, with driver fault injection; map reference model judged call by call",
  text="The real SQL and sqlcrud generators run on a hand-written corpus program and seeded synthesised model files; the generated Go file is compiled unmodified and executed through database/sql against pgsim, a simulated PostgreSQL loaded only from the generated DDL (identifier folding, serial, defaults, NOT NULL, CHECK, UNIQUE/PRIMARY KEY, FOREIGN KEY with ON DELETE actions, typed values with canonical output text, transactions, COPY, placeholder audit). Each simulated run is a history of up to 40 abstract operations resolved against a map reference model built from the source's own description; every call is compared with the model and full cross-checks are interleaved. One third of the histories inject driver faults (error before/after apply, bad connection with retry, broken result set, failed commit, connection lost inside a transaction); a faulted call is not judged and the model is resynchronised. Sampling over programs and histories.",
  note="Trusted: pgsim (my model of PostgreSQL, lenient where unsure), stubs/pq (stand-in for lib/pq's array formats, NullTime, CopyIn), the reflection harness and its model of ON DELETE cascades. Rows stay in the domain the emitted SQL types represent exactly. Validation functions are opaque (C04).",
  ref="3 (C05)"),
}

BUILDING = {
}

NA = {
 "C01": "pure function of the input program (source -> Go text, judged by a type checker); no schedule, clock, fault, history or I/O for a simulator to own - needs program generation + type checking, which is a different technique",
 "C02": "pure function of a value (marshal then unmarshal); no interleaving, fault or history dimension",
 "C03": "relation between two generated artefacts over all values; pure, needs a TypeScript structural checker, not a simulator",
 "C04": "needs evaluating PL/pgSQL validators on documents; pure input relation with no schedule or fault (the C05 database simulator deliberately treats validators as opaque)",
 "C06": "structural property of emitted Dart text; pure function of the input program",
 "C08": "total mapping Go field type -> DDL text; pure function of the input program",
 "C09": "tag parsing vs encoding/json and metamorphic program pairs; pure function of the input program",
 "C10": "exactness of a deterministic analysis result over input programs; nothing to schedule or fault",
 "C11": "exactness of a deterministic analysis result over input programs; nothing to schedule or fault",
 "C12": "closure/faithfulness of a deterministic analysis; its termination is that of a deterministic recursion on the input, not liveness under faults",
 "C13": "deterministic extractor over input programs; pure",
 "C14": "shape of generated client text is a pure function of the endpoint list; the client's own I/O has no ordering, retry or fault in the property, and no TypeScript runtime for it exists in the sandbox",
 "C16": "string rewriting of comment directives; pure function of the input program",
 "C18": "a Go panic on a given input is a deterministic function of that input, not a crash point; needs robustness fuzzing over programs, not simulation",
}

def check(pid, c):
    low = pid.lower()
    return {
        "property_id": pid,
        "quick_cmd": f"./check {pid} quick",
        "thorough_cmd": f"./check {pid} thorough",
        "evidence_file": f"/verif/evidence/{pid}.json",
        "replay_cmd_template": f"./check {pid} --replay {{path}}",
        "engine": "detsim",
        "level_claimed": {"category": "exploration", "text": c["text"], "design_ref": c["ref"]},
        "level_note": c["note"],
        "technique": c["technique"],
    }

m = {
 "version": 1,
 "setup_cmd": "./setup.sh",
 "hooks": {
  "guard": "verif",
  "enable": "no hook is committed to /repo: ./check copies the current working tree to a scratch directory and creates the seams there by AST instrumentation (instr/) plus the injected package verifsim (simrt/); drivers are built against that copy with -modfile",
  "baseline_off_cmd": "cd /repo && go test -mod=mod -vet=off -count=1 -timeout 25m ./...",
  "source_commits": [],
  "add_only": True,
 },
 "engines": [{
  "name": "detsim", "path": "/verif/kernel",
  "serves_properties": sorted(CLAIMED),
  "kind_free_text": "deterministic simulation with fault injection: seeded PRNG -> generated workload + faults -> real code from the current tree run against simulated environment; oracle per run; ddmin minimisation; strict replay files",
 }],
 "checks": [check(p, CLAIMED[p]) for p in sorted(CLAIMED)],
 "not_applicable": [{"property_id": p, "reason": r} for p, r in sorted({**NA, **BUILDING}.items())],
 "notes": "See DESIGN.md. Exit codes of every command: 0 held, 1 violation (VIOLATION line + replay file), 2 harness trouble (no VIOLATION line). known_findings.jsonl lists recorded and fixed defects.",
}
ids = [json.loads(l)["id"] for l in open(os.path.join(V, "properties.jsonl"))]
covered = set(CLAIMED) | set(NA) | set(BUILDING)
assert covered == set(ids), (set(ids) - covered, covered - set(ids))
assert not (set(CLAIMED) & (set(NA) | set(BUILDING)))
json.dump(m, open(os.path.join(V, "MANIFEST.json"), "w"), indent=1)
try:
    import jsonschema
    jsonschema.validate(m, json.load(open("/root/.vp/MANIFEST.schema.json")))
    print("MANIFEST.json valid;", len(m["checks"]), "checks,", len(m["not_applicable"]), "not applicable")
except ImportError:
    print("jsonschema not available; written unvalidated")
