#!/bin/bash
# tools/run-seeded.sh [PROP] [tier]: applies every seeded change under /verif/seeded/<PROP>/*/patch.diff
# to a scratch copy of /repo, runs the property's check against it and prints one line per change.
cd "$(dirname "${BASH_SOURCE[0]}")/.."
TIER="${2:-quick}"
for P in ${1:-C05 C07 C15 C17 C19 C20}; do
	for d in seeded/$P/*/; do
		n=$(basename "$d")
		out=$(./mutate.sh "$d/patch.diff" "$P" "$TIER" 2>&1)
		rc=$(echo "$out" | grep -o "exit=[0-9]*" | tail -1)
		clauses=$(echo "$out" | grep -o "clause [a-z_]*" | sort -u | tr '\n' ',' )
		echo "$P/$n $TIER $rc $clauses"
	done
done
