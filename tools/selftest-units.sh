#!/bin/bash
# unit tests of the trusted base: kernel (minimiser, strict replay, seed/worker
# independence), pgsim (its PostgreSQL semantics) and the lib/pq stand-in
cd "$(dirname "${BASH_SOURCE[0]}")/.."
export GOFLAGS=-mod=mod GOPROXY=off GOSUMDB=off GOTOOLCHAIN=local
go test -count=1 ./kernel/ ./pgsim/ ./simrt/ && (cd stubs/pq && go test -count=1 .)
