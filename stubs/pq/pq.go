// Package pq is a stand-in for github.com/lib/pq (which is not available in
// this sandbox): the array types, NullTime and CopyIn used by gomacro's
// generated CRUD code, written after lib/pq's documented text formats.
package pq

import (
	"database/sql/driver"
	"fmt"
	"strconv"
	"strings"
	"time"
)

// ---- generic one-dimensional array text format ---------------------------

func appendQuoted(b []byte, s string) []byte {
	b = append(b, '"')
	for i := 0; i < len(s); i++ {
		if s[i] == '"' || s[i] == '\\' {
			b = append(b, '\\')
		}
		b = append(b, s[i])
	}
	return append(b, '"')
}

// parseArray splits {a,b,"c d",NULL} into elements; null[i] marks NULLs.
func parseArray(src []byte) (elems []string, null []bool, err error) {
	s := strings.TrimSpace(string(src))
	if len(s) < 2 || s[0] != '{' || s[len(s)-1] != '}' {
		return nil, nil, fmt.Errorf("pq: unable to parse array; expected '{' at offset 0: %q", s)
	}
	body := s[1 : len(s)-1]
	if body == "" {
		return []string{}, []bool{}, nil
	}
	i := 0
	for {
		if i < len(body) && body[i] == '"' {
			var b strings.Builder
			i++
			for {
				if i >= len(body) {
					return nil, nil, fmt.Errorf("pq: unable to parse array; unterminated quote")
				}
				if body[i] == '\\' && i+1 < len(body) {
					b.WriteByte(body[i+1])
					i += 2
					continue
				}
				if body[i] == '"' {
					i++
					break
				}
				b.WriteByte(body[i])
				i++
			}
			elems = append(elems, b.String())
			null = append(null, false)
		} else {
			j := i
			for j < len(body) && body[j] != ',' {
				if body[j] == '{' {
					return nil, nil, fmt.Errorf("pq: multidimensional arrays are not supported here")
				}
				j++
			}
			e := body[i:j]
			elems = append(elems, e)
			null = append(null, e == "NULL")
			i = j
		}
		if i >= len(body) {
			break
		}
		if body[i] != ',' {
			return nil, nil, fmt.Errorf("pq: unable to parse array; unexpected %q at offset %d", body[i], i+1)
		}
		i++
	}
	return elems, null, nil
}

func srcBytes(src interface{}, what string) ([]byte, bool, error) {
	switch s := src.(type) {
	case []byte:
		return s, false, nil
	case string:
		return []byte(s), false, nil
	case nil:
		return nil, true, nil
	}
	return nil, false, fmt.Errorf("pq: cannot convert %T to %s", src, what)
}

type Int64Array []int64

func (a *Int64Array) Scan(src interface{}) error {
	b, isNil, err := srcBytes(src, "Int64Array")
	if err != nil || isNil {
		if isNil {
			*a = nil
		}
		return err
	}
	elems, null, err := parseArray(b)
	if err != nil {
		return err
	}
	out := make(Int64Array, len(elems))
	for i, e := range elems {
		if null[i] {
			return fmt.Errorf("pq: parsing array element index %d: cannot convert nil to int64", i)
		}
		if out[i], err = strconv.ParseInt(e, 10, 64); err != nil {
			return fmt.Errorf("pq: parsing array element index %d: %v", i, err)
		}
	}
	*a = out
	return nil
}

func (a Int64Array) Value() (driver.Value, error) {
	if a == nil {
		return nil, nil
	}
	b := []byte{'{'}
	for i, v := range a {
		if i > 0 {
			b = append(b, ',')
		}
		b = strconv.AppendInt(b, v, 10)
	}
	return string(append(b, '}')), nil
}

type Int32Array []int32

func (a *Int32Array) Scan(src interface{}) error {
	b, isNil, err := srcBytes(src, "Int32Array")
	if err != nil || isNil {
		if isNil {
			*a = nil
		}
		return err
	}
	elems, null, err := parseArray(b)
	if err != nil {
		return err
	}
	out := make(Int32Array, len(elems))
	for i, e := range elems {
		if null[i] {
			return fmt.Errorf("pq: parsing array element index %d: cannot convert nil to int32", i)
		}
		v, err := strconv.ParseInt(e, 10, 32)
		if err != nil {
			return fmt.Errorf("pq: parsing array element index %d: %v", i, err)
		}
		out[i] = int32(v)
	}
	*a = out
	return nil
}

func (a Int32Array) Value() (driver.Value, error) {
	if a == nil {
		return nil, nil
	}
	b := []byte{'{'}
	for i, v := range a {
		if i > 0 {
			b = append(b, ',')
		}
		b = strconv.AppendInt(b, int64(v), 10)
	}
	return string(append(b, '}')), nil
}

type Float64Array []float64

func (a *Float64Array) Scan(src interface{}) error {
	b, isNil, err := srcBytes(src, "Float64Array")
	if err != nil || isNil {
		if isNil {
			*a = nil
		}
		return err
	}
	elems, null, err := parseArray(b)
	if err != nil {
		return err
	}
	out := make(Float64Array, len(elems))
	for i, e := range elems {
		if null[i] {
			return fmt.Errorf("pq: parsing array element index %d: cannot convert nil to float64", i)
		}
		if out[i], err = strconv.ParseFloat(e, 64); err != nil {
			return fmt.Errorf("pq: parsing array element index %d: %v", i, err)
		}
	}
	*a = out
	return nil
}

func (a Float64Array) Value() (driver.Value, error) {
	if a == nil {
		return nil, nil
	}
	b := []byte{'{'}
	for i, v := range a {
		if i > 0 {
			b = append(b, ',')
		}
		b = strconv.AppendFloat(b, v, 'f', -1, 64)
	}
	return string(append(b, '}')), nil
}

type BoolArray []bool

func (a *BoolArray) Scan(src interface{}) error {
	b, isNil, err := srcBytes(src, "BoolArray")
	if err != nil || isNil {
		if isNil {
			*a = nil
		}
		return err
	}
	elems, _, err := parseArray(b)
	if err != nil {
		return err
	}
	out := make(BoolArray, len(elems))
	for i, e := range elems {
		switch e {
		case "t":
			out[i] = true
		case "f":
			out[i] = false
		default:
			return fmt.Errorf("pq: could not parse boolean array index %d: invalid boolean %q", i, e)
		}
	}
	*a = out
	return nil
}

func (a BoolArray) Value() (driver.Value, error) {
	if a == nil {
		return nil, nil
	}
	b := []byte{'{'}
	for i, v := range a {
		if i > 0 {
			b = append(b, ',')
		}
		if v {
			b = append(b, 't')
		} else {
			b = append(b, 'f')
		}
	}
	return string(append(b, '}')), nil
}

type StringArray []string

func (a *StringArray) Scan(src interface{}) error {
	b, isNil, err := srcBytes(src, "StringArray")
	if err != nil || isNil {
		if isNil {
			*a = nil
		}
		return err
	}
	elems, null, err := parseArray(b)
	if err != nil {
		return err
	}
	out := make(StringArray, len(elems))
	for i, e := range elems {
		if null[i] {
			return fmt.Errorf("pq: parsing array element index %d: cannot convert nil to string", i)
		}
		out[i] = e
	}
	*a = out
	return nil
}

func (a StringArray) Value() (driver.Value, error) {
	if a == nil {
		return nil, nil
	}
	b := []byte{'{'}
	for i, v := range a {
		if i > 0 {
			b = append(b, ',')
		}
		b = appendQuoted(b, v)
	}
	return string(append(b, '}')), nil
}

// NullTime mirrors pq.NullTime.
type NullTime struct {
	Time  time.Time
	Valid bool
}

func (nt *NullTime) Scan(value interface{}) error {
	nt.Time, nt.Valid = value.(time.Time)
	return nil
}

func (nt NullTime) Value() (driver.Value, error) {
	if !nt.Valid {
		return nil, nil
	}
	return nt.Time, nil
}

// QuoteIdentifier quotes an identifier like lib/pq.
func QuoteIdentifier(name string) string {
	if end := strings.IndexRune(name, 0); end > -1 {
		name = name[:end]
	}
	return `"` + strings.Replace(name, `"`, `""`, -1) + `"`
}

// CopyIn creates a COPY FROM STDIN statement like lib/pq.
func CopyIn(table string, columns ...string) string {
	stmt := "COPY " + QuoteIdentifier(table) + " ("
	for i, col := range columns {
		if i != 0 {
			stmt += ", "
		}
		stmt += QuoteIdentifier(col)
	}
	stmt += ") FROM STDIN"
	return stmt
}
