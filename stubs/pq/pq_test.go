package pq

import "testing"

func TestArrays(t *testing.T) {
	v, _ := StringArray{"a b", `q"x`, `b\s`, "", "NULL", "c,d", "{e}"}.Value()
	var back StringArray
	if err := back.Scan(v); err != nil || len(back) != 7 || back[1] != `q"x` || back[2] != `b\s` || back[3] != "" || back[4] != "NULL" || back[5] != "c,d" || back[6] != "{e}" {
		t.Fatalf("%v %v %q", err, back, v)
	}
	// PostgreSQL's own (minimally quoted) output
	if err := back.Scan([]byte(`{a,"b c",NULL}`)); err == nil {
		t.Fatal("NULL element must be refused for []string")
	}
	if err := back.Scan([]byte(`{a,"b c",""}`)); err != nil || back[1] != "b c" || back[2] != "" {
		t.Fatal(err, back)
	}
	var ia Int64Array
	if err := ia.Scan([]byte("{1,-2,3}")); err != nil || ia[1] != -2 {
		t.Fatal(err)
	}
	if err := ia.Scan(nil); err != nil || ia != nil {
		t.Fatal("nil")
	}
	if s := CopyIn("t", "a", `b"c`); s != `COPY "t" ("a", "b""c") FROM STDIN` {
		t.Fatal(s)
	}
}
