// synthdump writes one synthesised program to a directory (debugging aid).
package main

import (
	"flag"
	"fmt"
	"os"
	"path/filepath"

	"verif/kernel"
	"verif/synth"
)

func main() {
	seed := flag.Uint64("n", 1, "")
	dir := flag.String("dir", "", "")
	rand := flag.Bool("randsafe", false, "")
	sql := flag.Bool("sql", false, "")
	flag.Parse()
	p := synth.Generate(kernel.NewRand(*seed), fmt.Sprintf("p%d", *seed), synth.Profile{RandSafe: *rand, SQL: *sql, MinSub: 1, MaxSub: 3})
	if err := synth.WriteTo(p, *dir); err != nil {
		fmt.Fprintln(os.Stderr, err)
		os.Exit(1)
	}
	fmt.Println(filepath.Join(*dir), p.Analyse)
}
