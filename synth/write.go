package synth

import (
	"os"
	"path/filepath"
)

// WriteTo materialises the program under dir.
func WriteTo(p *Program, dir string) error {
	for _, name := range p.SortedFiles() {
		path := filepath.Join(dir, name)
		if err := os.MkdirAll(filepath.Dir(path), 0o755); err != nil {
			return err
		}
		if err := os.WriteFile(path, []byte(p.Files[name]), 0o644); err != nil {
			return err
		}
	}
	return nil
}
