// Package synth builds, from a seed, a small Go module made of the
// declaration forms gomacro supports, together with the tables the oracles
// need (enum members, union members, skipped fields, SQL tables). It is
// workload generation: the deciding step of every check is elsewhere.
package synth

import (
	"fmt"
	"sort"
	"strings"

	"verif/kernel"
)

// Profile restricts the synthesiser to the domain a check needs.
type Profile struct {
	// RandSafe keeps to what the random-data generator supports: its basic
	// kinds, exported enum members before unexported ones, JSON-encodable
	// map keys, unions declared in the analysed package, acyclic type graphs.
	RandSafe bool
	// SQL adds table structs to the analysed file (see sql.go).
	SQL bool
	// OnlySQL analyses the table file only.
	OnlySQL bool
	// Routes adds an Echo-style route file.
	Routes bool
	// OneFile analyses a single file of the root package.
	OneFile bool
	// Module overrides the module / root import path (default example.com/vs/<name>).
	Module   string
	MinSub   int
	MaxSub   int
	MaxDecls int
	Pointers bool
}

type EnumInfo struct {
	Pkg        string   `json:"pkg"` // import path
	Name       string   `json:"name"`
	Underlying string   `json:"underlying"`
	Exported   []string `json:"exported"`
	Unexported []string `json:"unexported"`
	Values     []string `json:"values"` // Go literal per member, exported first
	IsString   bool     `json:"is_string"`
}

type UnionInfo struct {
	Pkg     string   `json:"pkg"`
	Name    string   `json:"name"`
	Members []string `json:"members"` // local type names
}

type FieldRef struct {
	Pkg    string `json:"pkg"`
	Struct string `json:"struct"`
	Field  string `json:"field"`
}

type Program struct {
	Name     string            `json:"name"`
	Module   string            `json:"module"`
	Files    map[string]string `json:"files"`
	Analyse  []string          `json:"analyse"` // files handed to gomacro, relative to the module root
	RootPkg  string            `json:"root_pkg"`
	RootName string            `json:"root_name"`
	Enums    []EnumInfo        `json:"enums,omitempty"`
	Unions   []UnionInfo       `json:"unions,omitempty"`
	Skips    []FieldRef        `json:"skips,omitempty"`
	Tables   []TableInfo       `json:"tables,omitempty"`
	// Types are the named types declared in the analysed files, in order.
	Types []string `json:"types,omitempty"`
}

// SortedFiles returns the file names in increasing order.
func (p *Program) SortedFiles() []string {
	var out []string
	for f := range p.Files {
		out = append(out, f)
	}
	sort.Strings(out)
	return out
}

type kind int

const (
	kBasic kind = iota
	kEnum
	kStruct
	kUnion
	kNamedBasic
	kNamedSlice
	kNamedMap
	kNamedArray
	kDate
	kID
	kGeneric
	kNamedUnionSlice
	kNamedUnionMap
)

type named struct {
	pkg      *pkg
	name     string
	kind     kind
	basic    string // for enums / named basics: underlying
	jsonKey  bool   // usable as JSON map key
	cmp      bool   // comparable
	hasUnion bool   // value contains a union somewhere (cannot cross packages for wrappers)
	intEnum  bool
	// weight estimates how many scalar values one generated random value of
	// the type holds (slices 5x, maps 45x, unions evaluate every member): the
	// random-data profile keeps values small enough to be built in milliseconds
	weight int
	// embedRelated: the struct embeds another struct or is embedded; such
	// structs stay out of unions (an embedded member's methods are promoted,
	// which silently makes the embedding struct a member as well)
	embedRelated bool
	unionMember  bool
}

type pkg struct {
	path    string // import path
	name    string
	dir     string // relative dir, "" for root
	types   []*named
	imports map[string]bool // by file: handled per file below
}

type file struct {
	analysed bool
	pkg      *pkg
	name     string
	body     strings.Builder
	imports  map[string]string // path -> name
}

type gen struct {
	r          *kernel.Rand
	prof       Profile
	prog       *Program
	pkgs       []*pkg
	root       *pkg
	counter    int
	sawUnion   bool
	wideBasics bool
	w          int // weight of the type expression typeExprB returned last
}

var randBasics = []string{"bool", "int", "int32", "int64", "uint8", "int8", "int16", "uint16", "float64", "string"}
var moreBasics = []string{"uint", "uint32", "uint64", "float32", "byte", "rune"}

func (g *gen) fresh(prefix string) string {
	g.counter++
	return fmt.Sprintf("%s%d", prefix, g.counter)
}

func (g *gen) basic() string {
	if g.prof.RandSafe || !g.wideBasics || g.r.Chance(4, 5) {
		return kernel.Pick(g.r, randBasics)
	}
	return kernel.Pick(g.r, moreBasics)
}

func (f *file) use(p *pkg) string {
	if p == f.pkg {
		return ""
	}
	f.imports[p.path] = p.name
	return p.name + "."
}

func (f *file) useStd(path string) {
	f.imports[path] = ""
}

func (f *file) render() string {
	var b strings.Builder
	fmt.Fprintf(&b, "package %s\n\n", f.pkg.name)
	if len(f.imports) > 0 {
		var ps []string
		for p := range f.imports {
			ps = append(ps, p)
		}
		sort.Strings(ps)
		b.WriteString("import (\n")
		for _, p := range ps {
			fmt.Fprintf(&b, "\t%q\n", p)
		}
		b.WriteString(")\n\n")
	}
	b.WriteString(f.body.String())
	return b.String()
}

// visible returns the named types usable from file f declared so far, filtered.
func (g *gen) visible(f *file, ok func(*named) bool) []*named {
	var out []*named
	for _, p := range g.pkgs {
		if p != f.pkg && !g.canImport(f.pkg, p) {
			continue
		}
		for _, t := range p.types {
			if p != f.pkg && t.hasUnion {
				continue
			}
			if p != f.pkg && !exported(t.name) {
				continue
			}
			if ok(t) {
				out = append(out, t)
			}
		}
	}
	return out
}

func exported(name string) bool { return name != "" && name[0] >= 'A' && name[0] <= 'Z' }

// canImport: package order is a DAG - a package may import packages created
// before it (sub-packages are created first, the root last).
func (g *gen) canImport(from, to *pkg) bool {
	fi, ti := -1, -1
	for i, p := range g.pkgs {
		if p == from {
			fi = i
		}
		if p == to {
			ti = i
		}
	}
	return ti < fi
}

// typeExpr returns a Go type expression for a field or element.
// ctx: 0 field, 1 element of slice/array/map value, 2 map key
// budget bounds the weight (see named.weight) of the expression returned.
func (g *gen) budget() int {
	if g.prof.RandSafe {
		return 4000
	}
	return 1 << 30
}

func (g *gen) typeExpr(f *file, depth int, key bool) (expr string) {
	return g.typeExprB(f, depth, key, g.budget())
}

func (g *gen) typeExprB(f *file, depth int, key bool, budget int) (expr string) {
	r := g.r
	g.w = 1
	if key {
		cands := g.visible(f, func(t *named) bool { return t.jsonKey })
		if len(cands) > 0 && r.Chance(1, 2) {
			t := kernel.Pick(r, cands)
			return f.use(t.pkg) + t.name
		}
		return kernel.Pick(r, []string{"string", "int", "int64", "string", "uint8"})
	}
	for tries := 0; tries < 20; tries++ {
		switch w := r.Intn(20); {
		case w < 5:
			return g.basic()
		case w < 11:
			cands := g.visible(f, func(t *named) bool {
				if t.weight > budget {
					return false
				}
				switch t.kind {
				case kUnion:
					return depth == 0 // unions only directly as struct fields
				}
				return true
			})
			if len(cands) == 0 {
				continue
			}
			t := kernel.Pick(r, cands)
			if t.hasUnion || t.kind == kUnion {
				g.sawUnion = true
			}
			g.w = t.weight
			if g.w < 1 {
				g.w = 1
			}
			if t.kind == kGeneric {
				ids := g.visible(f, func(t *named) bool { return t.kind == kID })
				if len(ids) == 0 {
					continue
				}
				id := kernel.Pick(r, ids)
				return f.use(t.pkg) + t.name + "[" + f.use(id.pkg) + id.name + "]"
			}
			return f.use(t.pkg) + t.name
		case w < 12:
			if g.prof.RandSafe && depth > 0 {
				continue // anonymous containers of time.Time are printed as []Time by the generator (C01 territory)
			}
			f.useStd("time")
			return "time.Time"
		case w < 15 && depth < 2 && budget >= 5:
			e := g.typeExprB(f, max(depth+1, 1), false, budget/5)
			g.w *= 5
			return "[]" + e
		case w < 16 && depth < 2:
			n := r.Range(1, 4)
			if budget < n {
				continue
			}
			e := g.typeExprB(f, max(depth+1, 1), false, budget/n)
			g.w *= n
			return fmt.Sprintf("[%d]%s", n, e)
		case w < 18 && depth < 2 && budget >= 90:
			k := g.typeExprB(f, depth+1, true, budget)
			e := g.typeExprB(f, max(depth+1, 1), false, budget/45-1)
			g.w = 45 * (g.w + 1)
			return "map[" + k + "]" + e
		case w < 19 && g.prof.Pointers && depth == 0:
			return "*" + g.basic()
		default:
			return g.basic()
		}
	}
	return "int"
}

func (g *gen) typeExprNoUnion(f *file, depth int) string {
	if depth < 1 {
		depth = 1
	}
	return g.typeExpr(f, depth, false)
}

func (g *gen) declEnum(f *file) {
	r := g.r
	name := g.fresh("E")
	if r.Chance(1, 6) && !(g.prof.RandSafe && f.pkg != g.root) {
		// (generated code of another package cannot name an unexported type)
		name = strings.ToLower(name[:1]) + name[1:] + "x" // unexported enum type
	}
	under := kernel.Pick(r, []string{"int", "uint8", "int", "uint", "string", "int16"})
	info := EnumInfo{Pkg: f.pkg.path, Name: name, Underlying: under, IsString: under == "string"}
	n := r.Range(1, 5)
	nUnexp := 0
	if r.Chance(1, 4) {
		nUnexp = r.Range(1, 2)
		if g.prof.RandSafe {
			nUnexp = 1 // two unexported members make the random-data output syntactically invalid (C01 territory)
		}
	}
	fmt.Fprintf(&f.body, "type %s %s\n\nconst (\n", name, under)
	style := r.Intn(3) // 0 iota, 1 explicit with gaps, 2 iota with offset
	if under == "string" {
		style = 1
	}
	val := 0
	if style == 2 {
		val = r.Range(1, 3)
	}
	idx := 0
	emit := func(cname string, exp bool) {
		var lit string
		switch {
		case under == "string":
			lit = fmt.Sprintf("%q", "v"+strings.ToLower(cname))
		default:
			lit = fmt.Sprint(val)
		}
		comment := ""
		if r.Chance(1, 2) {
			comment = " // label " + cname
		}
		switch style {
		case 0:
			if idx == 0 {
				fmt.Fprintf(&f.body, "\t%s %s = iota%s\n", cname, name, comment)
			} else {
				fmt.Fprintf(&f.body, "\t%s%s\n", cname, comment)
			}
		case 2:
			if idx == 0 {
				fmt.Fprintf(&f.body, "\t%s %s = iota + %d%s\n", cname, name, val, comment)
			} else {
				fmt.Fprintf(&f.body, "\t%s%s\n", cname, comment)
			}
		default:
			fmt.Fprintf(&f.body, "\t%s %s = %s%s\n", cname, name, lit, comment)
		}
		info.Values = append(info.Values, lit)
		if exp {
			info.Exported = append(info.Exported, cname)
		} else {
			info.Unexported = append(info.Unexported, cname)
		}
		idx++
		if style == 1 {
			val += r.Range(1, 3)
		} else {
			val++
		}
	}
	base := strings.ToUpper(name[:1]) + name[1:]
	for i := 0; i < n; i++ {
		emit(fmt.Sprintf("%sV%d", base, i), true)
	}
	for i := 0; i < nUnexp; i++ {
		emit(fmt.Sprintf("priv%sV%d", base, i), false)
	}
	f.body.WriteString(")\n\n")
	g.prog.Enums = append(g.prog.Enums, info)
	f.pkg.types = append(f.pkg.types, &named{pkg: f.pkg, name: name, kind: kEnum, basic: under, jsonKey: true, cmp: true, intEnum: under != "string"})
}

func (g *gen) declNamedBasic(f *file) {
	r := g.r
	switch r.Intn(5) {
	case 0: // ID type
		name := kernel.Pick(r, []string{"Id", "ID"}) + g.fresh("Obj")
		fmt.Fprintf(&f.body, "type %s int64\n\n", name)
		f.pkg.types = append(f.pkg.types, &named{pkg: f.pkg, name: name, kind: kID, basic: "int64", jsonKey: true, cmp: true})
	case 1: // date
		name := g.fresh("Date")
		if r.Bool() {
			name = "My" + name
		}
		f.useStd("time")
		fmt.Fprintf(&f.body, "type %s time.Time\n\n", name)
		fmt.Fprintf(&f.body, "func (d %[1]s) MarshalJSON() ([]byte, error) { return time.Time(d).MarshalJSON() }\n\nfunc (d *%[1]s) UnmarshalJSON(b []byte) error { return (*time.Time)(d).UnmarshalJSON(b) }\n\n", name)
		f.pkg.types = append(f.pkg.types, &named{pkg: f.pkg, name: name, kind: kDate})
	default:
		name := g.fresh("N")
		b := g.basic()
		if b == "byte" || b == "rune" {
			b = "int"
		}
		fmt.Fprintf(&f.body, "type %s %s\n\n", name, b)
		f.pkg.types = append(f.pkg.types, &named{pkg: f.pkg, name: name, kind: kNamedBasic, basic: b, jsonKey: b == "string" || strings.Contains(b, "int"), cmp: true})
	}
}

func (g *gen) declNamedContainer(f *file) {
	r := g.r
	name := g.fresh("L")
	switch r.Intn(3) {
	case 0:
		e := g.typeExprB(f, 1, false, g.budget()/5)
		fmt.Fprintf(&f.body, "type %s []%s\n\n", name, e)
		f.pkg.types = append(f.pkg.types, &named{pkg: f.pkg, name: name, kind: kNamedSlice, weight: 5 * g.w})
	case 1:
		n := r.Range(1, 5)
		e := g.typeExprB(f, 1, false, g.budget()/n)
		fmt.Fprintf(&f.body, "type %s [%d]%s\n\n", name, n, e)
		f.pkg.types = append(f.pkg.types, &named{pkg: f.pkg, name: name, kind: kNamedArray, weight: n * g.w})
	default:
		k := g.typeExpr(f, 1, true)
		e := g.typeExprB(f, 1, false, g.budget()/45-1)
		fmt.Fprintf(&f.body, "type %s map[%s]%s\n\n", name, k, e)
		f.pkg.types = append(f.pkg.types, &named{pkg: f.pkg, name: name, kind: kNamedMap, weight: 45 * (g.w + 1)})
	}
}

func (g *gen) declStruct(f *file, allowUnion bool) *named {
	r := g.r
	name := g.fresh("S")
	if r.Chance(1, 8) && !(g.prof.RandSafe && f.pkg != g.root) {
		name = "s" + name + "priv"
	}
	nf := r.Range(1, 6)
	if r.Chance(1, 10) {
		nf = 0
	}
	t := &named{pkg: f.pkg, name: name, kind: kStruct}
	if r.Chance(1, 5) {
		fmt.Fprintf(&f.body, "// %s is a synthesised struct.\n", name)
	}
	fmt.Fprintf(&f.body, "type %s struct {\n", name)
	// embedded struct
	total := 1
	if r.Chance(1, 8) {
		cands := g.visible(f, func(t *named) bool {
			return t.kind == kStruct && !t.hasUnion && !t.unionMember && t.pkg == f.pkg && exported(t.name) && t.weight <= g.budget()/2
		})
		if len(cands) > 0 {
			e := kernel.Pick(r, cands)
			fmt.Fprintf(&f.body, "\t%s\n", e.name)
			e.embedRelated = true
			t.embedRelated = true
			total += e.weight
		}
	}
	for i := 0; i < nf; i++ {
		fname := g.fresh("F")
		if r.Chance(1, 10) {
			fname = "f" + fname[1:] // unexported
		}
		depth := 0
		var ty string
		g.sawUnion = false
		remaining := g.budget() - total
		if remaining < 1 {
			remaining = 1
		}
		if allowUnion {
			ty = g.typeExprB(f, depth, false, remaining)
		} else {
			// depth 1 also forbids unions
			ty = g.typeExprB(f, 1, false, remaining)
		}
		total += g.w
		if g.sawUnion {
			t.hasUnion = true
		}
		tag := ""
		tagCase := r.Intn(12)
		if !exported(fname) {
			tagCase = 11
		}
		switch tagCase {
		case 0:
			tag = fmt.Sprintf(" `json:\"%s_tag\"`", strings.ToLower(fname))
		case 1:
			// (not on union-bearing fields: a skipped union stays nil, and a nil
			// union is outside the domain of the JSON wire format)
			if exported(fname) && !g.sawUnion {
				tag = " `gomacro-data:\"ignore\"`"
				g.prog.Skips = append(g.prog.Skips, FieldRef{Pkg: f.pkg.path, Struct: name, Field: fname})
			}
		case 2:
			if !g.prof.RandSafe {
				tag = " `json:\"-\"`"
			}
		case 3:
			tag = fmt.Sprintf(" `json:\"%s,omitempty\"`", strings.ToLower(fname))
			if g.prof.RandSafe {
				tag = fmt.Sprintf(" `json:\"%s_k\"`", strings.ToLower(fname))
			}
		}
		comment := ""
		if r.Chance(1, 8) {
			comment = " // field comment"
		}
		fmt.Fprintf(&f.body, "\t%s %s%s%s\n", fname, ty, tag, comment)
	}
	f.body.WriteString("}\n\n")
	t.weight = total
	f.pkg.types = append(f.pkg.types, t)
	return t
}

func (g *gen) declUnion(f *file) {
	r := g.r
	name := g.fresh("U")
	method := "is" + name
	nm := r.Range(1, 4)
	info := UnionInfo{Pkg: f.pkg.path, Name: name}
	fmt.Fprintf(&f.body, "type %s interface {\n\t%s()\n}\n\n", name, method)
	var members []string
	for i := 0; i < nm; i++ {
		// members: new structs (without unions inside), sometimes an existing struct
		cands := g.visible(f, func(t *named) bool {
			return t.kind == kStruct && t.pkg == f.pkg && !t.hasUnion && !t.embedRelated && exported(t.name) && t.weight <= g.budget()/8
		})
		if len(cands) > 0 && r.Chance(1, 3) {
			m := kernel.Pick(r, cands)
			dup := false
			for _, x := range members {
				dup = dup || x == m.name
			}
			if !dup {
				members = append(members, m.name)
				m.unionMember = true // from now on nobody may embed it
				continue
			}
		}
		st := g.declStruct(f, false)
		if !exported(st.name) || st.hasUnion || st.embedRelated || st.weight > g.budget()/8 {
			// keep it out of the union: unexported members are legal Go but
			// outside the profile
			continue
		}
		members = append(members, st.name)
		st.unionMember = true // from now on nobody may embed it
	}
	if len(members) == 0 {
		st := g.fresh("S")
		fmt.Fprintf(&f.body, "type %s struct {\n\tV int\n}\n\n", st)
		f.pkg.types = append(f.pkg.types, &named{pkg: f.pkg, name: st, kind: kStruct, weight: 2})
		members = append(members, st)
	}
	for _, m := range members {
		fmt.Fprintf(&f.body, "func (%s) %s() {}\n", m, method)
	}
	f.body.WriteString("\n")
	sort.Strings(members)
	uw := 0
	for _, m := range members {
		for _, lt := range f.pkg.types {
			if lt.name == m {
				lt.unionMember = true
				uw += lt.weight
			}
		}
	}
	if uw < 1 {
		uw = 1
	}
	info.Members = members
	g.prog.Unions = append(g.prog.Unions, info)
	f.pkg.types = append(f.pkg.types, &named{pkg: f.pkg, name: name, kind: kUnion, hasUnion: true, weight: uw})
	// named containers of the union
	if r.Chance(1, 2) {
		ln := g.fresh("UL")
		fmt.Fprintf(&f.body, "type %s []%s\n\n", ln, name)
		f.pkg.types = append(f.pkg.types, &named{pkg: f.pkg, name: ln, kind: kNamedUnionSlice, hasUnion: true, weight: 5 * uw})
	}
	if r.Chance(1, 3) {
		mn := g.fresh("UM")
		fmt.Fprintf(&f.body, "type %s map[%s]%s\n\n", mn, kernel.Pick(r, []string{"string", "int"}), name)
		f.pkg.types = append(f.pkg.types, &named{pkg: f.pkg, name: mn, kind: kNamedUnionMap, hasUnion: true, weight: 45 * (uw + 1)})
	}
}

func (g *gen) declGeneric(f *file) {
	name := g.fresh("G")
	fmt.Fprintf(&f.body, "type %s[T ~int64] struct {\n\tId T\n\tOk bool\n}\n\n", name)
	f.pkg.types = append(f.pkg.types, &named{pkg: f.pkg, name: name, kind: kGeneric})
}

func (g *gen) fillFile(f *file, n int, unions bool) {
	r := g.r
	for i := 0; i < n; i++ {
		w := r.Intn(20)
		if w == 10 && f.analysed {
			w = 15 // generic declarations are supported only outside the analysed file
		}
		switch {
		case w < 4:
			g.declEnum(f)
		case w < 8:
			g.declNamedBasic(f)
		case w < 10:
			g.declNamedContainer(f)
		case w < 11:
			g.declGeneric(f)
		case w < 13 && unions:
			g.declUnion(f)
		default:
			g.declStruct(f, unions)
		}
	}
}

// Generate builds one program.
func Generate(r *kernel.Rand, name string, prof Profile) *Program {
	g := &gen{r: r, prof: prof}
	mod := "example.com/vs/" + name
	if prof.Module != "" {
		mod = prof.Module
	}
	g.prog = &Program{Name: name, Module: mod, Files: map[string]string{}}
	g.prog.Files["go.mod"] = "module " + mod + "\n\ngo 1.23\n"
	g.wideBasics = r.Chance(1, 3)
	nsub := r.Range(prof.MinSub, prof.MaxSub)
	maxDecls := prof.MaxDecls
	if maxDecls == 0 {
		maxDecls = 10
	}
	var files []*file
	for i := 0; i < nsub; i++ {
		pname := fmt.Sprintf("sub%d", i)
		dir := pname
		if i > 0 && r.Chance(1, 3) {
			dir = g.pkgs[r.Intn(len(g.pkgs))].dir + "/" + pname // nested
		}
		p := &pkg{path: mod + "/" + dir, name: pname, dir: dir}
		g.pkgs = append(g.pkgs, p)
		f := &file{pkg: p, name: dir + "/types.go", imports: map[string]string{}}
		g.fillFile(f, r.Range(2, 5), false)
		files = append(files, f)
		if r.Chance(1, 3) {
			f2 := &file{pkg: p, name: dir + "/more.go", imports: map[string]string{}}
			g.fillFile(f2, r.Range(1, 3), false)
			files = append(files, f2)
		}
	}
	rootName := kernel.Pick(r, []string{"model", "data", "m", "api"})
	root := &pkg{path: mod, name: rootName, dir: ""}
	g.root = root
	g.pkgs = append(g.pkgs, root)
	// a helper file first (declares types the analysed file uses), then the analysed file(s)
	helper := &file{pkg: root, name: "helpers.go", imports: map[string]string{}}
	g.fillFile(helper, r.Range(1, 4), true)
	files = append(files, helper)
	nAnalysed := 1
	if r.Chance(1, 3) && !prof.OneFile {
		nAnalysed = 2
	}
	for i := 0; i < nAnalysed; i++ {
		f := &file{pkg: root, name: fmt.Sprintf("models%d.go", i), imports: map[string]string{}, analysed: true}
		before := len(root.types)
		g.fillFile(f, r.Range(3, maxDecls), true)
		for _, t := range root.types[before:] {
			g.prog.Types = append(g.prog.Types, t.name)
		}
		files = append(files, f)
		g.prog.Analyse = append(g.prog.Analyse, f.name)
	}
	if prof.SQL {
		tf, sf := g.sqlFiles()
		files = append(files, tf, sf)
		if prof.OnlySQL {
			g.prog.Analyse = nil
		}
		g.prog.Analyse = append(g.prog.Analyse, tf.name)
	}
	for _, f := range files {
		g.prog.Files[f.name] = f.render()
	}
	g.prog.RootPkg = mod
	g.prog.RootName = rootName
	return g.prog
}
