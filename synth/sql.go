package synth

// TableInfo describes one SQL table struct of the analysed file, from the
// source's point of view (never from gomacro's output).
type TableInfo struct {
	Name    string       `json:"name"`    // Go struct name
	Columns []ColumnInfo `json:"columns"` // exported / guard fields in order
}

type ColumnInfo struct {
	Field string `json:"field"`
	Kind  string `json:"kind"`
}

func (g *gen) sqlTables(f *file) {}
