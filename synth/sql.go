package synth

import (
	"fmt"
	"strings"

	"verif/kernel"
)

// TableInfo describes one SQL table struct of the analysed file, from the
// source's point of view (never from gomacro's output).
type TableInfo struct {
	// Frozen: the table is part of the schema and of the cross-checks but the
	// harness never writes to it (its rows would need keys the model does not track)
	Frozen bool `json:"frozen,omitempty"`
	Name       string       `json:"name"` // Go struct name
	Primary    bool         `json:"primary"`
	IDType     string       `json:"id_type,omitempty"` // "int64" or a local named type
	Columns    []ColumnInfo `json:"columns"`           // exported fields in order (guards excluded)
	Guards     []string     `json:"guards,omitempty"`
	Uniques    [][]string   `json:"uniques,omitempty"`     // ADD UNIQUE(...) field names
	PrimaryKey []string     `json:"primary_key,omitempty"` // ADD PRIMARY KEY(...) on link tables
	SelectKeys [][]string   `json:"select_keys,omitempty"`
	Queries    []QueryInfo  `json:"queries,omitempty"`
}

// QueryInfo describes a custom query comment:
//
//	form 0: UPDATE T SET <Set> = $val$ WHERE <Where> = $sel$
//	form 1: UPDATE T SET <Set> = $val$ WHERE <Where> = $sel$ OR <Where2> = $sel$
//	form 2: UPDATE T SET <Set> = $val$ WHERE (<Where> = $sel$ OR <Where2> = $sel$) AND <Where3> = $lim$
//
// The generated function takes one argument per distinct placeholder, in
// order of first occurrence: val, sel[, lim].
type QueryInfo struct {
	Name   string   `json:"name"`
	Form   int      `json:"form"`
	Set    string   `json:"set"`   // field assigned
	Where  string   `json:"where"` // field compared
	Where2 string   `json:"where2,omitempty"`
	Where3 string   `json:"where3,omitempty"`
	// WhereConst (form 3): the compared column is tested against this constant of
	// its enum (written #[Enum.Const] in the comment), the function takes the new value only
	WhereConst string   `json:"where_const,omitempty"`
	Args       []string `json:"args"` // argument order: field names
}

type ColumnInfo struct {
	Field    string `json:"field"`
	GoType   string `json:"go_type"`
	Kind     string `json:"kind"` // id bool int float string enum fk time date nulltime nullstring nullbool nullint32 nullfloat bytes array composite json
	Enum     string `json:"enum,omitempty"`
	FK       string `json:"fk,omitempty"` // target table (Go name)
	Nullable bool   `json:"nullable,omitempty"`
	OnDelete string `json:"on_delete,omitempty"`
	ArrayLen int    `json:"array_len,omitempty"` // -1 for slices
}

func (t *TableInfo) Column(field string) *ColumnInfo {
	for i := range t.Columns {
		if t.Columns[i].Field == field {
			return &t.Columns[i]
		}
	}
	return nil
}

var tableNames = []string{"Item", "Exercice", "UserAccount", "Progression", "Camp", "Dossier", "Ticket", "Lesson", "Recipe", "Planet", "Sheet", "Invoice", "Widget", "Trajet"}
var fieldNames = []string{"Name", "Title", "Count", "Flag", "Score", "Tags", "Data", "Kind", "Amount", "Label", "Notes", "Rank", "Size", "Color", "Level", "Price", "Ref", "Weight", "Code", "Mark"}

type sqlGen struct {
	g        *gen
	tf       *file // tables file (analysed)
	sf       *file // support types file (same package, not analysed)
	tables   []*TableInfo
	used     map[string]bool
	dateType string
	enums    []EnumInfo
}

func (s *sqlGen) field(t map[string]bool) string {
	for {
		n := kernel.Pick(s.g.r, fieldNames)
		if s.g.r.Chance(1, 4) {
			n += fmt.Sprint(s.g.r.Range(1, 3))
		}
		if !t[strings.ToLower(n)] {
			t[strings.ToLower(n)] = true
			return n
		}
	}
}

// supportEnum declares an enum in the support file and returns it.
func (s *sqlGen) supportEnum() EnumInfo {
	if len(s.enums) > 0 && s.g.r.Chance(1, 2) {
		return kernel.Pick(s.g.r, s.enums)
	}
	before := len(s.g.prog.Enums)
	for {
		s.g.declEnum(s.sf)
		e := s.g.prog.Enums[len(s.g.prog.Enums)-1]
		if exported(e.Name) && e.Underlying != "uint" && len(e.Exported) > 0 {
			s.enums = append(s.enums, e)
			_ = before
			return e
		}
	}
}

func (s *sqlGen) column(t *TableInfo, names map[string]bool, primaries []*TableInfo) (ColumnInfo, string) {
	r := s.g.r
	c := ColumnInfo{Field: s.field(names)}
	tag := ""
	for {
		switch r.Intn(22) {
		case 0:
			c.Kind, c.GoType = "bool", "bool"
		case 1, 2:
			c.Kind, c.GoType = "int", kernel.Pick(r, []string{"int", "int64", "int32", "int16", "uint8", "int"})
		case 3:
			c.Kind, c.GoType = "float", "float64"
		case 4, 5:
			c.Kind, c.GoType = "string", "string"
		case 6:
			// named basic
			b := kernel.Pick(r, []string{"int", "string", "bool", "int16", "float64"})
			n := s.g.fresh("NB")
			fmt.Fprintf(&s.sf.body, "type %s %s\n\n", n, b)
			c.GoType = n
			switch b {
			case "string":
				c.Kind = "string"
			case "bool":
				c.Kind = "bool"
			case "float64":
				c.Kind = "float"
			default:
				c.Kind = "int"
			}
		case 7, 8:
			e := s.supportEnum()
			c.Kind, c.GoType, c.Enum = "enum", e.Name, e.Name
		case 9, 10, 11:
			if len(primaries) == 0 {
				continue
			}
			target := kernel.Pick(r, primaries)
			c.FK = target.Name
			switch r.Intn(4) {
			case 0: // plain key
				c.Kind = "fk"
				if target.IDType == "int64" {
					c.GoType = "int64"
					tag = fmt.Sprintf("gomacro-sql-foreign:%q", target.Name)
				} else {
					c.GoType = target.IDType
				}
				if r.Chance(1, 2) {
					c.OnDelete = "CASCADE"
				}
			case 1: // sql.NullInt64
				if target.IDType != "int64" {
					continue
				}
				c.Kind, c.GoType, c.Nullable = "fk", "sql.NullInt64", true
				s.tf.useStd("database/sql")
				tag = fmt.Sprintf("gomacro-sql-foreign:%q", target.Name)
				c.OnDelete = kernel.Pick(r, []string{"", "SET NULL", "CASCADE"})
			case 2: // local look-alike
				n := s.g.fresh("Opt")
				fmt.Fprintf(&s.sf.body, "type %s struct {\n\tValid bool\n\tID %s\n}\n\n", n, target.IDType)
				c.Kind, c.GoType, c.Nullable = "fk", n, true
				tag = fmt.Sprintf("gomacro-sql-foreign:%q", target.Name)
				c.OnDelete = kernel.Pick(r, []string{"", "SET NULL", "CASCADE"})
			default:
				c.Kind = "fk"
				if target.IDType == "int64" {
					c.GoType = "int64"
					tag = fmt.Sprintf("gomacro-sql-foreign:%q", target.Name)
				} else {
					c.GoType = target.IDType
				}
			}
			if c.OnDelete != "" {
				tag += fmt.Sprintf(" gomacro-sql-on-delete:%q", c.OnDelete)
			}
		case 12:
			s.tf.useStd("time")
			c.Kind, c.GoType = "time", "time.Time"
		case 13:
			if s.dateType == "" {
				s.dateType = "Date"
				s.sf.useStd("time")
				s.sf.body.WriteString("// Date only keeps year, month and day.\ntype Date time.Time\n\nfunc NewDateFrom(t time.Time) Date {\n\treturn Date(time.Date(t.Year(), t.Month(), t.Day(), 0, 0, 0, 0, time.UTC))\n}\n\nfunc (d Date) Time() time.Time { return time.Time(d) }\n\n")
			}
			c.Kind, c.GoType = "date", s.dateType
		case 14:
			s.tf.useStd("database/sql")
			switch r.Intn(5) {
			case 0:
				c.Kind, c.GoType = "nulltime", "sql.NullTime"
			case 1:
				c.Kind, c.GoType = "nullstring", "sql.NullString"
			case 2:
				c.Kind, c.GoType = "nullbool", "sql.NullBool"
			case 3:
				c.Kind, c.GoType = "nullint32", "sql.NullInt32"
			default:
				c.Kind, c.GoType = "nullfloat", "sql.NullFloat64"
			}
			c.Nullable = true
		case 15:
			c.Kind, c.GoType = "bytes", "[]byte"
		case 16, 17:
			// named array / slice of basics or int enums
			n := s.g.fresh("Arr")
			// (element types other than these make the generated converters
			// ill-typed - []int16 is not convertible to pq.Int32Array - which
			// is C01's business)
			elem := kernel.Pick(r, []string{"int32", "int64", "string", "bool", "float64", "int32"})
			enumElem := false
			if r.Chance(1, 4) {
				e := s.supportEnum()
				if !e.IsString {
					elem = e.Name
					c.Enum = e.Name
					enumElem = true
				}
			}
			c.Kind = "array"
			// (fixed-length arrays of enums make the generated converter
			// ill-typed - copy([]E, pq.Int64Array) - which is C01's business)
			if r.Bool() && !enumElem {
				c.ArrayLen = r.Range(1, 5)
				if elem == "uint8" {
					elem = "int16" // [n]uint8 is fine, []uint8 is bytea; keep both out of the way
				}
				fmt.Fprintf(&s.sf.body, "type %s [%d]%s\n\n", n, c.ArrayLen, elem)
			} else {
				c.ArrayLen = -1
				if elem == "uint8" {
					elem = "int32"
				}
				fmt.Fprintf(&s.sf.body, "type %s []%s\n\n", n, elem)
			}
			c.GoType = n
		case 18:
			// all-integer composite
			n := s.g.fresh("Comp")
			enumField := ""
			if r.Bool() {
				e := s.supportEnum()
				if !e.IsString {
					enumField = e.Name
				}
			}
			fmt.Fprintf(&s.sf.body, "type %s struct {\n\tA int\n\tB uint8\n", n)
			if enumField != "" {
				fmt.Fprintf(&s.sf.body, "\tC %s\n", enumField)
			}
			if r.Chance(1, 3) {
				s.sf.body.WriteString("\tD int64\n")
			}
			s.sf.body.WriteString("}\n\n")
			c.Kind, c.GoType = "composite", n
		default:
			// jsonb: named struct with a non-integer field, named map, named slice of structs
			n := s.g.fresh("Js")
			switch r.Intn(3) {
			case 0:
				fmt.Fprintf(&s.sf.body, "type %s struct {\n\tLabel string\n\tN int\n\tOn bool `json:\"on\"`\n\tList []int\n}\n\n", n)
			case 1:
				fmt.Fprintf(&s.sf.body, "type %s map[string]%s\n\n", n, kernel.Pick(r, []string{"bool", "int", "string", "[]string"}))
			default:
				in := s.g.fresh("JsIn")
				fmt.Fprintf(&s.sf.body, "type %s struct {\n\tX float64\n\tS string\n}\n\ntype %s []%s\n\n", in, n, in)
			}
			c.Kind, c.GoType = "json", n
		}
		break
	}
	return c, tag
}

func (s *sqlGen) emitTable(t *TableInfo, tags map[string]string, comments []string, guards []string) {
	// two references from one row to the same parent with different ON DELETE
	// actions make the outcome of a delete depend on PostgreSQL's trigger
	// order: keep one action per (table, target)
	action := map[string]string{}
	for i := range t.Columns {
		c := &t.Columns[i]
		if c.Kind != "fk" {
			continue
		}
		if a, seen := action[c.FK]; seen && a != c.OnDelete {
			if a == "SET NULL" && !c.Nullable {
				a = ""
				for j := 0; j < i; j++ {
					if t.Columns[j].FK == c.FK {
						t.Columns[j].OnDelete = ""
						tags[t.Columns[j].Field] = stripOnDelete(tags[t.Columns[j].Field])
					}
				}
				action[c.FK] = ""
			}
			c.OnDelete = a
			tg := stripOnDelete(tags[c.Field])
			if a != "" {
				tg = strings.TrimSpace(tg + fmt.Sprintf(" gomacro-sql-on-delete:%q", a))
			}
			if tg == "" {
				delete(tags, c.Field)
			} else {
				tags[c.Field] = tg
			}
		} else {
			action[c.FK] = c.OnDelete
		}
	}
	b := &s.tf.body
	for _, c := range comments {
		fmt.Fprintf(b, "// %s\n", c)
	}
	fmt.Fprintf(b, "type %s struct {\n", t.Name)
	idEmitted := false
	idAt := 0
	if t.Primary {
		idAt = s.g.r.Intn(len(t.Columns) + 1)
	}
	guardsFirst := len(guards) > 0 && s.g.r.Chance(1, 2)
	if guardsFirst {
		// a guard may be declared anywhere, also before the id
		for _, g := range guards {
			fmt.Fprintf(b, "\t%s\n", g)
		}
	}
	emitID := func() {
		if t.Primary && !idEmitted {
			fmt.Fprintf(b, "\tId %s\n", t.IDType)
			idEmitted = true
		}
	}
	for i, c := range t.Columns {
		if i == idAt {
			emitID()
		}
		if s.g.r.Chance(1, 6) {
			// a field that is neither exported nor a guard is not a column,
			// wherever it is declared
			fmt.Fprintf(b, "\tpriv%d %s\n", i, []string{"int", "string", "bool", "[]int"}[s.g.r.Intn(4)])
		}
		tag := tags[c.Field]
		if s.g.r.Chance(1, 4) {
			tag = strings.TrimSpace(fmt.Sprintf("json:%q %s", strings.ToLower(c.Field), tag))
		}
		if tag != "" {
			tag = " `" + tag + "`"
		}
		fmt.Fprintf(b, "\t%s %s%s\n", c.Field, c.GoType, tag)
	}
	emitID()
	if !guardsFirst {
		for _, g := range guards {
			fmt.Fprintf(b, "\t%s\n", g)
		}
	}
	b.WriteString("}\n\n")
}

// sqlFiles builds a file of table structs (analysed) and a file of support
// types (not analysed) for the root package.
func (g *gen) sqlFiles() (*file, *file) {
	r := g.r
	s := &sqlGen{g: g, used: map[string]bool{}}
	s.tf = &file{pkg: g.root, name: "tables.go", imports: map[string]string{}}
	s.sf = &file{pkg: g.root, name: "sqltypes.go", imports: map[string]string{}}
	nPrimary := r.Range(1, 4)
	nLink := r.Intn(3)
	if nPrimary < 2 && nLink > 0 && r.Bool() {
		nPrimary = 2
	}
	names := append([]string(nil), tableNames...)
	pickName := func() string {
		i := r.Intn(len(names))
		n := names[i]
		names = append(names[:i], names[i+1:]...)
		return n
	}
	var primaries []*TableInfo
	for i := 0; i < nPrimary; i++ {
		t := &TableInfo{Name: pickName(), Primary: true, IDType: "int64"}
		if r.Bool() {
			t.IDType = "Id" + t.Name
			fmt.Fprintf(&s.tf.body, "type %s int64\n\n", t.IDType)
		}
		cols := map[string]bool{"id": true}
		tags := map[string]string{}
		nc := r.Range(1, 6)
		if r.Chance(1, 12) {
			nc = 0 // a table may consist of its id only
		}
		for j := 0; j < nc; j++ {
			c, tag := s.column(t, cols, primaries)
			t.Columns = append(t.Columns, c)
			if tag != "" {
				tags[c.Field] = tag
			}
		}
		var comments, guards []string
		// uniques
		var scalars []string
		for _, c := range t.Columns {
			if c.Kind == "string" || c.Kind == "int" || (c.Kind == "fk" && !c.Nullable) {
				scalars = append(scalars, c.Field)
			}
		}
		if len(scalars) > 0 && r.Chance(1, 3) {
			u := []string{kernel.Pick(r, scalars)}
			if len(scalars) > 1 && r.Chance(1, 2) {
				o := kernel.Pick(r, scalars)
				if o != u[0] {
					u = append(u, o)
				}
			}
			t.Uniques = append(t.Uniques, u)
			comments = append(comments, fmt.Sprintf("gomacro:SQL ADD UNIQUE(%s)", strings.Join(u, ", ")))
		}
		if len(scalars) > 0 && r.Chance(1, 4) {
			k := []string{kernel.Pick(r, scalars)}
			if len(scalars) > 1 && r.Bool() {
				o := kernel.Pick(r, scalars)
				if o != k[0] {
					k = append(k, o)
				}
			}
			t.SelectKeys = append(t.SelectKeys, k)
			comments = append(comments, fmt.Sprintf("gomacro:SQL _SELECT KEY(%s)", strings.Join(k, ", ")))
		}
		if r.Chance(1, 3) {
			// custom query, see QueryInfo
			var simple []ColumnInfo
			for _, c := range t.Columns {
				if c.Kind == "string" || c.Kind == "int" || c.Kind == "bool" {
					simple = append(simple, c)
				}
			}
			if len(simple) >= 2 {
				a, b := simple[0], simple[1]
				inUnique := false
				for _, u := range t.Uniques {
					for _, f := range u {
						inUnique = inUnique || f == a.Field
					}
				}
				if !inUnique {
					q := QueryInfo{Name: "Set" + t.Name + a.Field, Set: a.Field, Where: b.Field, Args: []string{a.Field, b.Field}}
					text := fmt.Sprintf("UPDATE %s SET %s = $val$ WHERE %s = $sel$;", t.Name, a.Field, b.Field)
					// a second column of the same Go type allows the forms with a repeated placeholder
					var twin *ColumnInfo
					for i := range simple {
						if simple[i].Field != b.Field && simple[i].GoType == b.GoType {
							twin = &simple[i]
						}
					}
					if twin != nil && r.Chance(2, 3) {
						q.Where2 = twin.Field
						q.Form = 1
						text = fmt.Sprintf("UPDATE %s SET %s = $val$ WHERE %s = $sel$ OR %s = $sel$;", t.Name, a.Field, b.Field, twin.Field)
						if r.Bool() {
							third := simple[r.Intn(len(simple))]
							q.Form, q.Where3 = 2, third.Field
							q.Args = append(q.Args, third.Field)
							text = fmt.Sprintf("UPDATE %s SET %s = $val$ WHERE (%s = $sel$ OR %s = $sel$) AND %s = $lim$;", t.Name, a.Field, b.Field, twin.Field, third.Field)
						}
					}
					t.Queries = append(t.Queries, q)
					comments = append(comments, fmt.Sprintf("gomacro:QUERY %s %s", q.Name, text))
				}
			}
		}
		if r.Chance(1, 5) {
			switch r.Intn(3) {
			case 0:
				guards = append(guards, "guard bool `gomacro-sql-guard:\"true\"`")
			case 1:
				guards = append(guards, "guard int `gomacro-sql-guard:\"7\"`")
			default:
				e := s.supportEnum()
				pin := e.Exported[0]
				if len(e.Unexported) > 0 && r.Bool() {
					pin = e.Unexported[0] // a guard may be pinned to an unexported constant
				}
				guards = append(guards, fmt.Sprintf("guard %s `gomacro-sql-guard:\"#[%s.%s]\"`", e.Name, e.Name, pin))
			}
			t.Guards = append(t.Guards, "guard")
		}
		if r.Chance(1, 3) {
			comments = append([]string{t.Name + " is a synthesised table."}, comments...)
		}
		s.emitTable(t, tags, comments, guards)
		primaries = append(primaries, t)
		s.tables = append(s.tables, t)
	}
	for i := 0; i < nLink && len(primaries) > 0; i++ {
		t := &TableInfo{Name: pickName() + "Link"}
		cols := map[string]bool{"id": true}
		tags := map[string]string{}
		nfk := r.Range(1, 2)
		for j := 0; j < nfk; j++ {
			target := kernel.Pick(r, primaries)
			c := ColumnInfo{Field: "Id" + target.Name, Kind: "fk", FK: target.Name}
			if cols[strings.ToLower(c.Field)] {
				c.Field += "Bis"
			}
			cols[strings.ToLower(c.Field)] = true
			tag := ""
			if target.IDType == "int64" {
				c.GoType = "int64"
				tag = fmt.Sprintf("gomacro-sql-foreign:%q", target.Name)
			} else {
				c.GoType = target.IDType
			}
			if r.Chance(1, 3) && target.IDType == "int64" {
				c.GoType, c.Nullable = "sql.NullInt64", true
				s.tf.useStd("database/sql")
				tag = fmt.Sprintf("gomacro-sql-foreign:%q", target.Name)
			}
			if r.Chance(2, 3) {
				c.OnDelete = "CASCADE"
				tag = strings.TrimSpace(tag + fmt.Sprintf(" gomacro-sql-on-delete:%q", c.OnDelete))
			}
			if tag != "" {
				tags[c.Field] = tag
			}
			t.Columns = append(t.Columns, c)
		}
		for j := r.Intn(3); j > 0; j-- {
			c, tag := s.column(t, cols, nil)
			t.Columns = append(t.Columns, c)
			if tag != "" {
				tags[c.Field] = tag
			}
		}
		var comments []string
		var keyable []string
		for _, c := range t.Columns {
			if (c.Kind == "fk" && !c.Nullable) || c.Kind == "int" || c.Kind == "string" {
				keyable = append(keyable, c.Field)
			}
		}
		if len(keyable) >= 2 && r.Chance(1, 3) {
			t.PrimaryKey = keyable[:2]
			t.Uniques = append(t.Uniques, t.PrimaryKey)
			comments = append(comments, fmt.Sprintf("gomacro:SQL ADD PRIMARY KEY (%s)", strings.Join(t.PrimaryKey, ", ")))
		} else if len(keyable) >= 1 && r.Chance(1, 3) {
			u := keyable[:1]
			t.Uniques = append(t.Uniques, u)
			comments = append(comments, fmt.Sprintf("gomacro:SQL ADD UNIQUE(%s)", strings.Join(u, ", ")))
		}
		if len(keyable) >= 1 && r.Chance(1, 3) {
			k := []string{keyable[len(keyable)-1]}
			t.SelectKeys = append(t.SelectKeys, k)
			comments = append(comments, fmt.Sprintf("gomacro:SQL _SELECT KEY(%s)", strings.Join(k, ", ")))
		}
		s.emitTable(t, tags, comments, nil)
		s.tables = append(s.tables, t)
	}
	for _, t := range s.tables {
		g.prog.Tables = append(g.prog.Tables, *t)
	}
	return s.tf, s.sf
}

func stripOnDelete(tag string) string {
	i := strings.Index(tag, "gomacro-sql-on-delete:")
	if i < 0 {
		return tag
	}
	rest := tag[i+len("gomacro-sql-on-delete:"):]
	// rest starts with a quoted string
	j := strings.Index(rest[1:], "\"")
	if j < 0 {
		return strings.TrimSpace(tag[:i])
	}
	return strings.TrimSpace(tag[:i] + rest[j+2:])
}
