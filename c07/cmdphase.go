package main

import (
	"encoding/json"
	"fmt"
	"os"
	"os/exec"
	"path/filepath"
	"sort"

	"verif/kernel"
)

type cmdReport struct {
	Schedules int      `json:"schedules"`
	Distinct  int      `json:"distinct"`
	FirstBad  int      `json:"first_differing_schedule"`
	Canonical string   `json:"canonical"`
	Other     string   `json:"other"`
	Perturbed []string `json:"perturbed"`
	Steps     int64    `json:"steps"`
	Unstable  bool     `json:"canonical_unstable"`
}

// runCmdTier drives the real Config.run of cmd/gomacro.go (instrumented with
// both seams) under seeded schedules of map orders and goroutine picks.
func runCmdTier(env *kernel.Env, scr string, progs []progRef) (map[string]any, []kernel.Found) {
	bin := filepath.Join(scr, "bin", "c07cmd")
	cov := map[string]any{}
	if _, err := os.Stat(bin); err != nil {
		cov["status"] = "skipped: the driver does not build against this tree's cmd package"
		return cov, nil
	}
	nsched := 10
	if env.Tier == "thorough" {
		nsched = 60
	}
	sort.SliceStable(progs, func(i, j int) bool { return len(progFiles(env, progs[i])) > len(progFiles(env, progs[j])) })
	if len(progs) > 8 {
		progs = progs[:8]
	}
	type res struct {
		ref progRef
		rep cmdReport
		err string
	}
	results := make([]res, len(progs))
	done := make(chan int)
	sem := make(chan struct{}, 8)
	for i, ref := range progs {
		go func(i int, ref progRef) {
			sem <- struct{}{}
			defer func() { <-sem; done <- i }()
			dir := progDir(env, ref)
			if ref.Kind == "repo" {
				dir = filepath.Join(scr, "repo-pristine")
			}
			work := filepath.Join(env.Scratch, "cmdtier", ref.Name)
			os.MkdirAll(work, 0o755)
			args := []string{work, fmt.Sprint(nsched), fmt.Sprint(env.Seed), "-1"}
			for _, f := range progFiles(env, ref) {
				args = append(args, filepath.Join(dir, f))
			}
			cmd := exec.Command(bin, args...)
			cmd.Dir = dir
			b, err := cmd.Output()
			r := res{ref: ref}
			if err != nil {
				r.err = fmt.Sprintf("%v", err)
				if ee, ok := err.(*exec.ExitError); ok {
					s := string(ee.Stderr)
					if len(s) > 1500 {
						s = s[len(s)-1500:]
					}
					r.err += "\n" + s
				}
			} else if jerr := json.Unmarshal(b, &r.rep); jerr != nil {
				r.err = jerr.Error()
			}
			os.RemoveAll(work)
			results[i] = r
		}(i, ref)
	}
	for range progs {
		<-done
	}
	var found []kernel.Found
	total, steps := 0, int64(0)
	for _, r := range results {
		if r.err != "" {
			kernel.Harnessf("controlled command tier failed on %s: %s", r.ref.Name, r.err)
		}
		total += r.rep.Schedules
		steps += r.rep.Steps
		if r.rep.Distinct > 1 {
			clause, note := "command_outputs_depend_on_schedule", "deterministic: the schedule is a pure function of seed and schedule number"
			if r.rep.Unstable {
				clause, note = "command_outputs_differ_between_loads", "the canonical schedule did not reproduce itself: the difference comes from go/packages' parser goroutines (token positions), which the simulator does not schedule; replay is probabilistic"
			}
			v := kernel.Violation{Property: "C07", Clause: clause, Signature: "cmd.Config.run",
				Detail: fmt.Sprintf("program %s/%s: the output tree of the real Config.run under schedule %d differs from the canonical schedule\nperturbed decisions: %v\n--- canonical\n%s\n--- schedule %d\n%s",
					r.ref.Kind, r.ref.Name, r.rep.FirstBad, r.rep.Perturbed, r.rep.Canonical, r.rep.FirstBad, r.rep.Other)}
			path := filepath.Join(env.VerifDir, "evidence", "replays", fmt.Sprintf("C07-cmd-%s.json", r.ref.Name))
			if ev := evidenceDir(); ev != "" {
				path = filepath.Join(ev, "replays", filepath.Base(path))
			}
			os.MkdirAll(filepath.Dir(path), 0o755)
			b, _ := json.MarshalIndent(map[string]any{"violation": v, "program": r.ref, "files": progFiles(env, r.ref), "seed": env.Seed, "schedule": r.rep.FirstBad,
				"command": fmt.Sprintf("c07cmd <workdir> %d %d %d <files>", nsched, env.Seed, r.rep.FirstBad), "note": note}, "", " ")
			os.WriteFile(path, b, 0o644)
			found = append(found, kernel.Found{V: v, File: path, Case: kernel.Case{Index: 1<<30 + 3}})
		}
	}
	cov["programs"] = len(progs)
	cov["schedules"] = total
	cov["scheduler_steps"] = steps
	return cov, found
}
