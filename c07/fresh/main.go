// fresh prints, for one program, the sha256 of every output of every target.
// It is built against the pristine copy of the tree and executed many times
// in fresh processes: the runtime's real map seeds, the loader's goroutines
// and process-level state are sampled, not controlled.
package main

import (
	"encoding/json"
	"fmt"
	"os"

	"verif/c07/gen"
)

func main() {
	if len(os.Args) < 3 {
		fmt.Fprintln(os.Stderr, "usage: fresh <dir> <file>... [-text name]")
		os.Exit(2)
	}
	dir := os.Args[1]
	var files []string
	want := ""
	for i := 2; i < len(os.Args); i++ {
		if os.Args[i] == "-text" {
			want = os.Args[i+1]
			break
		}
		files = append(files, os.Args[i])
	}
	l, err := gen.Load(dir, files)
	if err != nil {
		fmt.Fprintln(os.Stderr, "load:", err)
		os.Exit(2)
	}
	outs := l.GenerateAll()
	if want != "" {
		fmt.Print(outs[want])
		return
	}
	// a second generation in the same process must agree as well
	again := l.GenerateAll()
	res := map[string]string{}
	for _, n := range gen.Names(outs) {
		res[n] = gen.Hash(outs[n])
		if again[n] != outs[n] {
			res[n] += "!second-generation-differs"
		}
	}
	json.NewEncoder(os.Stdout).Encode(res)
}
