// fresh prints, for one program, the sha256 of every output of every target.
// It is built against the pristine copy of the tree and executed many times
// in fresh processes: the runtime's real map seeds, the loader's goroutines
// and process-level state are sampled, not controlled.
package main

import (
	"encoding/json"
	"fmt"
	"os"
	"sort"
	"strings"

	"verif/c07/gen"
)

func main() {
	if len(os.Args) < 3 {
		fmt.Fprintln(os.Stderr, "usage: fresh <dir> <file>... [-text name]")
		os.Exit(2)
	}
	dir := os.Args[1]
	var files []string
	want := ""
	reload := 0
	for i := 2; i < len(os.Args); i++ {
		if os.Args[i] == "-text" {
			want = os.Args[i+1]
			break
		}
		if os.Args[i] == "-reload" {
			fmt.Sscan(os.Args[i+1], &reload)
			break
		}
		files = append(files, os.Args[i])
	}
	if reload > 0 {
		// load the program again and again in this process: every load has
		// its own FileSet, filled by go/packages' parser goroutines in an
		// order nobody controls
		seen := map[string]map[string]bool{}
		for k := 0; k < reload; k++ {
			l, err := gen.Load(dir, files)
			if err != nil {
				fmt.Fprintln(os.Stderr, "load:", err)
				os.Exit(2)
			}
			for n, text := range l.GenerateAll() {
				if seen[n] == nil {
					seen[n] = map[string]bool{}
				}
				seen[n][gen.Hash(text)] = true
			}
		}
		res := map[string][]string{}
		for n, hs := range seen {
			for h := range hs {
				res[n] = append(res[n], h)
			}
			sort.Strings(res[n])
		}
		json.NewEncoder(os.Stdout).Encode(res)
		return
	}
	// history: another program may be loaded and generated first in this
	// process (C07_BEFORE=<dir>|<file>,<file>...): the outputs of the program
	// asked for must not depend on it
	if before := os.Getenv("C07_BEFORE"); before != "" {
		bdir, bfiles, _ := strings.Cut(before, "|")
		if bl, berr := gen.Load(bdir, strings.Split(bfiles, ",")); berr == nil {
			bl.GenerateAll()
		} else {
			fmt.Fprintln(os.Stderr, "load of the earlier program:", berr)
			os.Exit(2)
		}
	}
	if os.Getenv("C07_REVERSE") != "" {
		// the files of the program in reverse order: per-file outputs must not
		// depend on which file of the list was generated first in the process
		for i, j := 0, len(files)-1; i < j; i, j = i+1, j-1 {
			files[i], files[j] = files[j], files[i]
		}
	}
	l, err := gen.Load(dir, files)
	if err != nil {
		fmt.Fprintln(os.Stderr, "load:", err)
		os.Exit(2)
	}
	outs := l.GenerateAll()
	if want != "" {
		fmt.Print(outs[want])
		return
	}
	// a second generation in the same process must agree as well
	again := l.GenerateAll()
	res := map[string]string{}
	for _, n := range gen.Names(outs) {
		res[n] = gen.Hash(outs[n])
		if again[n] != outs[n] {
			res[n] += "!second-generation-differs"
		}
	}
	json.NewEncoder(os.Stdout).Encode(res)
}
