package main

import (
	"encoding/json"
	"fmt"
	"os"
	"os/exec"
	"path/filepath"
	"sort"
	"strings"
	"sync"

	"verif/kernel"
)

type cliAction struct {
	Mode   string
	Output string
}

// runCLI executes the real cmd/gomacro binary (pristine copy) in config mode
// several times per program and compares exit status and output trees.
func runCLI(env *kernel.Env, scr string, progs []progRef) (int, []kernel.Found) {
	bin := filepath.Join(scr, "bin", "gomacro-cli")
	if _, err := os.Stat(bin); err != nil {
		kernel.Harnessf("CLI binary missing: %v", err)
	}
	goBin, err := exec.LookPath("go")
	if err != nil {
		kernel.Harnessf("go tool not found: %v", err)
	}
	pathDir := filepath.Join(env.Scratch, "cli-path")
	os.MkdirAll(pathDir, 0o755)
	os.Symlink(goBin, filepath.Join(pathDir, "go"))
	reps := 2
	if env.Tier == "thorough" {
		reps = 6
	}
	// multi-file programs first: the command's own ordering of files matters there
	sort.SliceStable(progs, func(i, j int) bool { return len(progFiles(env, progs[i])) > len(progFiles(env, progs[j])) })
	if len(progs) > 8 {
		progs = progs[:8]
	}
	reps = reps + 1
	var found []kernel.Found
	runs := 0
	type cliRes struct {
		runs  int
		found []kernel.Found
	}
	resCh := make(chan cliRes, len(progs))
	sem := make(chan struct{}, 8)
	for _, ref := range progs {
		go func(ref progRef) {
			sem <- struct{}{}
			defer func() { <-sem }()
			r, f := runCLIOne(env, scr, bin, pathDir, ref, reps)
			resCh <- cliRes{r, f}
		}(ref)
	}
	for range progs {
		r := <-resCh
		runs += r.runs
		found = append(found, r.found...)
	}
	sort.Slice(found, func(i, j int) bool { return found[i].File < found[j].File })
	return runs, found
}

var (
	goEnvCache = map[string]string{}
	goEnvMu    sync.Mutex
)

// goEnv is called from the parallel CLI runs: the cache needs its lock.
func goEnv(k string) string {
	goEnvMu.Lock()
	defer goEnvMu.Unlock()
	if v, ok := goEnvCache[k]; ok {
		return v
	}
	b, _ := exec.Command("go", "env", k).Output()
	v := strings.TrimSpace(string(b))
	goEnvCache[k] = v
	return v
}

func treeDigest(dir string) string {
	var lines []string
	filepath.Walk(dir, func(path string, info os.FileInfo, err error) error {
		if err != nil || info.IsDir() {
			return nil
		}
		b, _ := os.ReadFile(path)
		rel, _ := filepath.Rel(dir, path)
		lines = append(lines, fmt.Sprintf("%s %d %016x", rel, len(b), kernel.Hash64(string(b))))
		return nil
	})
	sort.Strings(lines)
	return strings.Join(lines, "\n")
}

func runCLIOne(env *kernel.Env, scr, bin, pathDir string, ref progRef, reps int) (int, []kernel.Found) {
	var found []kernel.Found
	runs := 0
	{
		dir := progDir(env, ref)
		if ref.Kind == "repo" {
			dir = filepath.Join(scr, "repo-pristine")
		}
		var trees []string
		for k := 0; k < reps; k++ {
			outDir := filepath.Join(env.Scratch, "cli-out", fmt.Sprintf("%s-%d", ref.Name, k))
			os.MkdirAll(filepath.Join(outDir, "dart"), 0o755)
			conf := map[string][]cliAction{"_dart": {{Output: filepath.Join(outDir, "dart")}}}
			for i, f := range progFiles(env, ref) {
				abs := filepath.Join(dir, f)
				acts := []cliAction{
					{"go/unions", filepath.Join(outDir, fmt.Sprintf("unions%d.go", i))},
					{"go/randdata", filepath.Join(outDir, fmt.Sprintf("rand%d.go", i))},
					{"typescript/types", filepath.Join(outDir, fmt.Sprintf("types%d.ts", i))},
					{"dart", "unused"},
				}
				if ref.Name == "sqlmodels" || ref.Kind == "synth" {
					acts = append(acts, cliAction{"sql", filepath.Join(outDir, fmt.Sprintf("create%d.sql", i))},
						cliAction{"go/sqlcrud", filepath.Join(outDir, fmt.Sprintf("crud%d.go", i))})
				}
				conf[abs] = acts
				if i == 0 {
					// the same source under a second spelling, with an action of its
					// own: both entries are processed, whatever the order of the keys
					alt := filepath.Dir(abs) + string(filepath.Separator) + "." + string(filepath.Separator) + filepath.Base(abs)
					conf[alt] = []cliAction{{"typescript/types", filepath.Join(outDir, "types_alt.ts")}}
				}
			}
			b, _ := json.Marshal(conf)
			confFile := filepath.Join(outDir, "conf.json")
			os.WriteFile(confFile, b, 0o644)
			cmd := exec.Command(bin, "-config", "-generate-sets", confFile)
			cmd.Dir = dir
			cmd.Env = []string{"PATH=" + pathDir, "HOME=" + os.Getenv("HOME"), "GOFLAGS=-mod=mod", "GOPROXY=off", "GOSUMDB=off", "GOTOOLCHAIN=local",
				"GOCACHE=" + goEnv("GOCACHE"), "GOMODCACHE=" + goEnv("GOMODCACHE"), fmt.Sprintf("GOMAXPROCS=%d", []int{1, 4, 16}[k%3])}
			outb, err := cmd.CombinedOutput()
			runs++
			status := "exit 0"
			if err != nil {
				status = err.Error()
				// keep the panic line, not the goroutine dump (addresses differ)
				for _, line := range strings.Split(string(outb), "\n") {
					if strings.HasPrefix(line, "panic:") {
						// (every run writes to a directory of its own: a message that
						// names an output path is the same message)
						status += " " + strings.ReplaceAll(line, outDir, "<out>")
					}
				}
			}
			os.Remove(confFile)
			trees = append(trees, status+"\n"+treeDigest(outDir))
			os.RemoveAll(outDir)
		}
		for k := 1; k < len(trees); k++ {
			if trees[k] != trees[0] {
				v := kernel.Violation{Property: "C07", Clause: "cli_outputs_differ", Signature: "cmd/gomacro",
					Detail: fmt.Sprintf("program %s/%s: two runs of the real CLI on the same config produced different results\n--- run 0\n%s\n--- run %d\n%s", ref.Kind, ref.Name, trees[0], k, trees[k])}
				path := filepath.Join(env.VerifDir, "evidence", "replays", fmt.Sprintf("C07-cli-%s.json", ref.Name))
				if ev := evidenceDir(); ev != "" {
					path = filepath.Join(ev, "replays", filepath.Base(path))
				}
				os.MkdirAll(filepath.Dir(path), 0o755)
				jb, _ := json.MarshalIndent(map[string]any{"violation": v, "program": ref, "note": "uncontrolled tier: replay is probabilistic"}, "", " ")
				os.WriteFile(path, jb, 0o644)
				found = append(found, kernel.Found{V: v, File: path, Case: kernel.Case{Index: 1<<30 + 1}})
				break
			}
		}
	}
	return runs, found
}
