// C07 - generation is deterministic.
//
// Go's randomised map iteration order is the scheduler of this code base.
// Controlled tier: every range over a map in the gomacro packages of the
// scratch copy has been rewritten (instr -mode maprange) to iterate in the
// order the simulator decides; schedule 0 is canonical everywhere, every other
// schedule perturbs a random subset of sites with reversals, rotations and
// shuffles, and every output of every target must be byte-identical.
// Fresh-process tier (ParentPhase): the pristine copy, real map seeds, many
// processes at GOMAXPROCS 1/4/16, plus the real CLI.
package main

import (
	"encoding/json"
	"fmt"
	"os"
	"os/exec"
	"path/filepath"
	"sort"
	"strings"

	"github.com/benoitkugler/gomacro/verifsim"

	"verif/c07/gen"
	"verif/kernel"
	"verif/synth"
)

type progRef struct {
	Kind  string   `json:"kind"` // repo | corpus | synth
	Name  string   `json:"name"`
	Seed  uint64   `json:"seed,omitempty"`
	Files []string `json:"files,omitempty"`
}

type params struct {
	Prog    progRef `json:"program"`
	SiteNum int     `json:"site_num"` // a site is perturbed iff hash(site,salt) % den < num
	SiteDen int     `json:"site_den"`
	Salt    uint64  `json:"salt"`
}

type c07 struct{}

func (c07) ID() string { return "C07" }

func (c07) BlockSize(env *kernel.Env) int {
	if env.Tier == "thorough" {
		return 400
	}
	return 60
}

func fixedPrograms(env *kernel.Env) []progRef {
	ps := []progRef{
		{Kind: "repo", Name: "testsource", Files: []string{"testutils/testsource/defs.go", "testutils/testsource/other_file.go"}},
		{Kind: "repo", Name: "sqlmodels", Files: []string{"analysis/sql/test/models.go"}},
		{Kind: "repo", Name: "routes", Files: []string{"analysis/httpapi/test/routes.go"}},
	}
	ents, _ := os.ReadDir(filepath.Join(env.VerifDir, "corpus"))
	for _, e := range ents {
		if !e.IsDir() {
			continue
		}
		b, err := os.ReadFile(filepath.Join(env.VerifDir, "corpus", e.Name(), "verif-files.txt"))
		if err != nil {
			continue
		}
		if _, err := os.Stat(filepath.Join(env.VerifDir, "corpus", e.Name(), "verif-no-c07")); err == nil {
			continue // makes a generator die with a fatal stack overflow (not this property's business)
		}
		ps = append(ps, progRef{Kind: "corpus", Name: e.Name(), Files: strings.Fields(string(b))})
	}
	return ps
}

func (c c07) Runs(env *kernel.Env) int {
	if env.Tier == "thorough" {
		return 0
	}
	return (len(fixedPrograms(env)) + 10) * c.BlockSize(env)
}

func (c c07) Generate(env *kernel.Env, r *kernel.Rand, index int) any {
	b := index / c.BlockSize(env)
	fixed := fixedPrograms(env)
	var p params
	if b < len(fixed) {
		p.Prog = fixed[b]
	} else {
		p.Prog = progRef{Kind: "synth", Name: fmt.Sprintf("s%d", b), Seed: kernel.Mix(env.Seed, "C07-program", b)}
	}
	switch r.Intn(4) {
	case 0:
		p.SiteNum, p.SiteDen = 1, 1
	case 1:
		p.SiteNum, p.SiteDen = 1, 2
	case 2:
		p.SiteNum, p.SiteDen = 1, 4
	default:
		p.SiteNum, p.SiteDen = 1, 12 // about one or two sites
	}
	p.Salt = r.Uint64()
	return p
}

type loaded struct {
	l        *gen.Loaded
	baseline map[string]string
	pending  *kernel.Violation
}

var cache = map[string]*loaded{}

func synthProfile() synth.Profile {
	return synth.Profile{MinSub: 1, MaxSub: 4, MaxDecls: 12, SQL: true}
}

func progDir(env *kernel.Env, ref progRef) string {
	switch ref.Kind {
	case "repo":
		return env.Repo
	case "corpus":
		return filepath.Join(env.VerifDir, "corpus", ref.Name)
	}
	dir := filepath.Join(env.Scratch, "c07-prog", fmt.Sprintf("%s-%d", ref.Name, ref.Seed))
	if _, err := os.Stat(filepath.Join(dir, "go.mod")); err != nil {
		p := synth.Generate(kernel.NewRand(ref.Seed), ref.Name, synthProfile())
		tmp := fmt.Sprintf("%s.tmp%d", dir, os.Getpid())
		if err := synth.WriteTo(p, tmp); err != nil {
			kernel.Harnessf("write program: %v", err)
		}
		b, _ := json.Marshal(p.Analyse)
		os.WriteFile(filepath.Join(tmp, "verif-analyse.json"), b, 0o644)
		if err := os.Rename(tmp, dir); err != nil {
			os.RemoveAll(tmp) // another worker won the race
		}
	}
	return dir
}

func progFiles(env *kernel.Env, ref progRef) []string {
	if ref.Kind != "synth" {
		return ref.Files
	}
	b, err := os.ReadFile(filepath.Join(progDir(env, ref), "verif-analyse.json"))
	if err != nil {
		kernel.Harnessf("%v", err)
	}
	var fs []string
	json.Unmarshal(b, &fs)
	return fs
}

func identity(site string, n int) []int { return nil }

func load(env *kernel.Env, ref progRef) *loaded {
	key := fmt.Sprintf("%s/%s/%d", ref.Kind, ref.Name, ref.Seed)
	if l, ok := cache[key]; ok {
		return l
	}
	// a worker goes through its programs block by block: the previous program
	// is not needed any more, and a loaded program (three type-checked copies
	// of its packages) is what a worker's memory is made of
	for k := range cache {
		delete(cache, k)
	}
	dir := progDir(env, ref)
	verifsim.MapHook = identity
	defer func() { verifsim.MapHook = nil }()
	l, err := gen.Load(dir, progFiles(env, ref))
	if err != nil {
		kernel.Harnessf("program %s does not load: %v", key, err)
	}
	ld := &loaded{l: l}
	ld.baseline = l.GenerateAll()
	again := l.GenerateAll()
	if name, d := differ(ld.baseline, again); name != "" {
		ld.pending = &kernel.Violation{Property: "C07", Clause: "second_generation_in_process_differs", Signature: targetOf(name),
			Detail: fmt.Sprintf("program %s: output %s differs between the first and the second generation in one process (canonical map order both times)\n%s", key, name, d)}
	}
	if ld.pending == nil {
		// every target alone on a fresh analysis: the order in which targets
		// are generated must not matter
		iso := l.GenerateIsolated()
		for _, name := range gen.Names(iso) {
			text := iso[name]
			if base, ok := ld.baseline[name]; ok && base != text && ld.pending == nil {
				_, d := differ(map[string]string{name: base}, map[string]string{name: text})
				ld.pending = &kernel.Violation{Property: "C07", Clause: "output_depends_on_what_was_generated_before", Signature: targetOf(name),
					Detail: fmt.Sprintf("program %s: output %s generated alone on a fresh analysis differs from the same target generated after the other targets on a shared analysis\n%s", key, name, d)}
			}
		}
	}
	if ld.pending == nil && len(l.Files) > 1 {
		// a new load of the same files, generated in reverse order: per-file
		// outputs must not depend on the files generated before in the process
		rev, err := l.GenerateReordered()
		if err != nil {
			kernel.Harnessf("program %s does not load the second time: %v", key, err)
		}
		for _, name := range gen.Names(rev) {
			text := rev[name]
			if strings.HasPrefix(name, "dart") || ld.pending != nil {
				continue // one output for the whole file list, in the order given
			}
			if base, ok := ld.baseline[name]; ok && base != text {
				_, d := differ(map[string]string{name: base}, map[string]string{name: text})
				ld.pending = &kernel.Violation{Property: "C07", Clause: "output_depends_on_what_was_generated_before", Signature: targetOf(name),
					Detail: fmt.Sprintf("program %s: output %s differs when the files of the program are loaded again and generated in reverse order\n%s", key, name, d)}
			}
		}
	}
	cache[key] = ld
	return ld
}

func targetOf(name string) string {
	t, _, _ := strings.Cut(name, ":")
	return t
}

// differ returns the first output (in name order) that differs, with a
// description of the first differing line.
func differ(a, b map[string]string) (string, string) {
	names := map[string]bool{}
	for n := range a {
		names[n] = true
	}
	for n := range b {
		names[n] = true
	}
	var ns []string
	for n := range names {
		ns = append(ns, n)
	}
	sort.Strings(ns)
	for _, n := range ns {
		x, okx := a[n]
		y, oky := b[n]
		if !okx || !oky {
			return n, fmt.Sprintf("output file set differs: present in canonical run=%v, in this run=%v", okx, oky)
		}
		if x == y {
			continue
		}
		xl, yl := strings.Split(x, "\n"), strings.Split(y, "\n")
		for i := 0; i < len(xl) || i < len(yl); i++ {
			var lx, ly string
			if i < len(xl) {
				lx = xl[i]
			}
			if i < len(yl) {
				ly = yl[i]
			}
			if lx != ly {
				return n, fmt.Sprintf("first difference at line %d:\n  canonical: %q\n  this run:  %q", i+1, lx, ly)
			}
		}
		return n, "texts differ"
	}
	return "", ""
}

func (c07) Execute(env *kernel.Env, raw json.RawMessage, ch *kernel.Choices) *kernel.Outcome {
	var p params
	if err := json.Unmarshal(raw, &p); err != nil {
		kernel.Harnessf("params: %v", err)
	}
	out := &kernel.Outcome{}
	ld := load(env, p.Prog)
	if ld.pending != nil {
		out.Violation = ld.pending
		return out
	}
	hits := map[string]int64{}
	var perturbed []string
	verifsim.MapTies = 0
	verifsim.MapHook = func(site string, n int) []int {
		hits[site]++
		out.Steps++
		if n < 2 {
			return nil
		}
		if p.SiteDen > 1 && int(kernel.Hash64(fmt.Sprintf("%s#%d", site, p.Salt))%uint64(p.SiteDen)) >= p.SiteNum {
			return nil
		}
		perm := make([]int, n)
		for i := range perm {
			perm[i] = i
		}
		switch ch.Choose("perm:"+site, 4) {
		case 0:
			return nil
		case 1:
			for i, j := 0, n-1; i < j; i, j = i+1, j-1 {
				perm[i], perm[j] = perm[j], perm[i]
			}
			out.Fault("reverse")
			out.Keys = append(out.Keys, "@siteperm:"+site+"/reverse")
		case 2:
			k := 1 + ch.Choose("rot:"+site, n-1)
			for i := range perm {
				perm[i] = (i + k) % n
			}
			out.Fault("rotate")
			out.Keys = append(out.Keys, "@siteperm:"+site+"/rotate")
		case 3:
			for i := n - 1; i > 0; i-- {
				j := ch.Choose("shuf:"+site, i+1)
				perm[i], perm[j] = perm[j], perm[i]
			}
			out.Fault("shuffle")
			out.Keys = append(out.Keys, "@siteperm:"+site+"/shuffle")
		}
		perturbed = append(perturbed, fmt.Sprintf("%s%v", site, perm))
		return perm
	}
	got := ld.l.GenerateAll()
	verifsim.MapHook = nil
	for s, n := range hits {
		out.ProbeN("site:"+s, n)
	}
	if verifsim.MapTies > 0 {
		out.ProbeN("canon_ties", verifsim.MapTies)
	}
	if name, d := differ(ld.baseline, got); name != "" {
		out.Violation = &kernel.Violation{Property: "C07", Clause: "output_depends_on_map_order", Signature: targetOf(name),
			Detail: fmt.Sprintf("program %s/%s: output %s differs from the canonical-order run\n%s\nperturbed iterations (site[permutation of canonically ordered entries]): %s",
				p.Prog.Kind, p.Prog.Name, name, d, strings.Join(perturbed, " "))}
		return out
	}
	if len(perturbed) > 0 {
		out.Keys = append(out.Keys, p.Prog.Name+"|"+strings.Join(perturbed, " "))
	}
	npanic := 0
	for _, v := range got {
		if strings.HasPrefix(v, "PANIC: ") {
			npanic++
		}
	}
	out.ProbeN("outputs_compared", int64(len(got)))
	out.ProbeN("outputs_that_are_panics", int64(npanic))
	out.Sample = map[string]any{"program": p.Prog, "outputs": gen.Names(got), "perturbed": perturbed}
	return out
}

func (c07) Shrink(raw json.RawMessage) []json.RawMessage {
	// the program is fixed; the perturbed set is minimised through the
	// decision trace (non-identity permutations reset to identity).
	var p params
	json.Unmarshal(raw, &p)
	return nil
}

func (c07) Meta(env *kernel.Env) kernel.Meta {
	extra := map[string]any{}
	if b, err := os.ReadFile(filepath.Join(filepath.Dir(env.Scratch), "instr-maprange.json")); err == nil {
		var rep map[string]any
		if json.Unmarshal(b, &rep) == nil {
			extra["instrumented_sites"] = rep["sites"]
			extra["uninstrumented_sites"] = rep["uninstrumented_sites"]
			extra["map_mutated_in_loop"] = rep["map_mutated_in_loop"]
		}
	}
	return kernel.Meta{
		Rule: "a run = one program (repo fixtures, corpus, synthesised multi-package modules) x one schedule of map iteration orders: each instrumented range site is perturbed with probability 1, 1/2, 1/4 or 1/12 (per run) by reverse / rotate / shuffle of its canonically ordered entries, then every file is re-analysed and all seven targets generated and compared byte for byte with the canonical-order run; distinct = distinct (program, list of perturbed iterations with their permutations); non-trivial = at least one iteration was really permuted",
		Real: []string{"analysis.LoadSources + go/packages", "analysis, analysis/sql, analysis/httpapi, all generators, generator.WriteDeclarations (instrumented copy of the current tree)", "fresh-process tier: pristine copy, real map seeds, real cmd/gomacro CLI"},
		Stub: []string{"map iteration order in the controlled tier (verifsim.MapPairs)", "external formatters (absent from PATH in the CLI tier)"},
		Assumptions: []string{
			"entries whose canonical rendering ties keep the runtime's relative order (counted as canon_ties)",
			"token positions depend on go/packages' internal goroutines, which the simulator does not schedule; sampled by the fresh-process tier only",
		},
		Extra: extra,
	}
}

// ---- fresh-process tier -------------------------------------------------

var goEnvPinned []string

// perturbedEnv is the environment of fresh process number k: what the go
// command needs is pinned (module and build caches, flags), the rest varies.
func perturbedEnv(k, gmp int, ws, scr string) []string {
	if goEnvPinned == nil {
		for _, name := range []string{"GOMODCACHE", "GOCACHE"} {
			out, err := exec.Command("go", "env", name).Output()
			if err != nil {
				kernel.Harnessf("go env %s: %v", name, err)
			}
			goEnvPinned = append(goEnvPinned, name+"="+strings.TrimSpace(string(out)))
		}
	}
	drop := map[string]bool{"GOPATH": true, "GOMODCACHE": true, "GOCACHE": true, "GOMAXPROCS": true}
	set := map[string]string{}
	switch k % 4 {
	case 1:
		set["GOPATH"] = ws
	case 2:
		set["GOPATH"] = filepath.Join(scr, "no-such-gopath")
		set["HOME"] = filepath.Join(scr, "home2")
		set["TZ"] = "Asia/Tokyo"
		set["LANG"] = "fr_FR.UTF-8"
		os.MkdirAll(set["HOME"], 0o755)
	case 3:
		set["TMPDIR"] = filepath.Join(scr, "tmp2")
		os.MkdirAll(set["TMPDIR"], 0o755)
	}
	for name := range set {
		drop[name] = true
	}
	var env []string
	for _, kv := range os.Environ() {
		name, _, _ := strings.Cut(kv, "=")
		if !drop[name] {
			env = append(env, kv)
		}
	}
	env = append(env, goEnvPinned...)
	env = append(env, fmt.Sprintf("GOMAXPROCS=%d", gmp))
	for name, v := range set {
		env = append(env, name+"="+v)
	}
	return env
}

func (c c07) ParentPhase(env *kernel.Env) kernel.PhaseResult {
	res := kernel.PhaseResult{Coverage: map[string]any{}}
	scr := os.Getenv("VERIF_SCR")
	fresh := filepath.Join(scr, "bin", "c07fresh")
	pristine := filepath.Join(scr, "repo-pristine")
	if _, err := os.Stat(fresh); err != nil {
		kernel.Harnessf("fresh-process binary missing: %v", err)
	}
	perProc, nprog := 2, len(fixedPrograms(env))+2
	if env.Tier == "thorough" {
		perProc, nprog = 8, len(fixedPrograms(env))+8
	}
	progs := fixedPrograms(env)
	for i := 0; len(progs) < nprog; i++ {
		b := len(fixedPrograms(env)) + i
		progs = append(progs, progRef{Kind: "synth", Name: fmt.Sprintf("s%d", b), Seed: kernel.Mix(env.Seed, "C07-program", b)})
	}
	progs = progs[:nprog]
	var procs int64
	type job struct {
		ref  progRef
		proc int
		gmp  int
	}
	type result struct {
		job job
		out map[string]string
		err string
	}
	var jobs []job
	for _, ref := range progs {
		for _, g := range []int{1, 4, 16} {
			for k := 0; k < perProc; k++ {
				jobs = append(jobs, job{ref, k, g})
			}
		}
	}
	// the programs are copied below <scratch>/gows/src: a process may or may not
	// have GOPATH pointing at that workspace (or anywhere), HOME, TMPDIR, TZ,
	// LANG and the working directory vary too - none of it is an input of the
	// generators, every process must print the same texts
	ws := filepath.Join(scr, "gows")
	wsDir := map[string]string{}
	for _, ref := range progs {
		if ref.Kind == "repo" {
			continue
		}
		dst := filepath.Join(ws, "src", "example.com", "vs", ref.Name)
		os.MkdirAll(filepath.Dir(dst), 0o755)
		if out, err := exec.Command("cp", "-r", progDir(env, ref), dst).CombinedOutput(); err != nil {
			kernel.Harnessf("copy of %s into the workspace: %v %s", ref.Name, err, out)
		}
		wsDir[ref.Name] = dst
	}
	results := make([]result, len(jobs))
	sem := make(chan struct{}, 8)
	done := make(chan int)
	for i, j := range jobs {
		go func(i int, j job) {
			sem <- struct{}{}
			defer func() { <-sem; done <- i }()
			dir := progDir(env, j.ref)
			if j.ref.Kind == "repo" {
				dir = pristine
			} else if d, ok := wsDir[j.ref.Name]; ok {
				dir = d
			}
			cmd := exec.Command(fresh, append([]string{dir}, progFiles(env, j.ref)...)...)
			cmd.Env = perturbedEnv(j.proc, j.gmp, ws, scr)
			cmd.Dir = []string{"", dir, "/", scr}[j.proc%4]
			b, err := cmd.Output()
			r := result{job: j}
			if err != nil {
				r.err = fmt.Sprintf("%v", err)
			} else if jerr := json.Unmarshal(b, &r.out); jerr != nil {
				r.err = jerr.Error()
			}
			results[i] = r
		}(i, j)
	}
	for range jobs {
		<-done
	}
	byProg := map[string][]result{}
	for _, r := range results {
		procs++
		if r.err != "" {
			kernel.Harnessf("fresh process for %s failed: %s", r.job.ref.Name, r.err)
		}
		byProg[r.job.ref.Name] = append(byProg[r.job.ref.Name], r)
	}
	distinctTexts := map[string]int{}
	for _, ref := range progs {
		rs := byProg[ref.Name]
		first := rs[0].out
		for name := range first {
			seen := map[string]bool{}
			for _, r := range rs {
				seen[r.out[name]] = true
			}
			if len(seen) > distinctTexts[targetOf(name)] {
				distinctTexts[targetOf(name)] = len(seen)
			}
			secondDiffers := false
			for h := range seen {
				if strings.Contains(h, "!second-generation-differs") {
					secondDiffers = true
				}
			}
			if len(seen) > 1 || secondDiffers {
				clause := "fresh_process_outputs_differ"
				if len(seen) == 1 {
					clause = "second_generation_in_process_differs"
				}
				var hs []string
				for h := range seen {
					hs = append(hs, h)
				}
				sort.Strings(hs)
				dir := progDir(env, ref)
				if ref.Kind == "repo" {
					dir = "<pristine copy of the tree>"
				}
				v := kernel.Violation{Property: "C07", Clause: clause, Signature: targetOf(name),
					Detail: fmt.Sprintf("program %s/%s output %s: %d distinct texts in %d fresh processes (sha256 prefixes %v)", ref.Kind, ref.Name, name, len(seen), len(rs), hs)}
				rep := map[string]any{"violation": v, "program": ref, "files": progFiles(env, ref),
					"command": fmt.Sprintf("GOMAXPROCS={1,4,16} c07fresh %s %s  (run repeatedly; reproduces with probability < 1 per pair of runs)", dir, strings.Join(progFiles(env, ref), " ")),
					"note":    "found by the uncontrolled fresh-process tier: replay is probabilistic; the controlled tier reports the same defect with an exact replay file when the culpable range statement is instrumented"}
				path := filepath.Join(env.VerifDir, "evidence", "replays", fmt.Sprintf("C07-fresh-%s-%s.json", ref.Name, strings.ReplaceAll(targetOf(name), "/", "_")))
				if ev := evidenceDir(); ev != "" {
					path = filepath.Join(ev, "replays", filepath.Base(path))
				}
				os.MkdirAll(filepath.Dir(path), 0o755)
				b, _ := json.MarshalIndent(rep, "", " ")
				os.WriteFile(path, b, 0o644)
				res.Violations = append(res.Violations, kernel.Found{V: v, File: path, Case: kernel.Case{Index: 1 << 30}})
				break
			}
		}
	}
	// history across programs: program B generated after program A in one
	// process must give what B gives in a process of its own (template twins
	// first - same layout, other constants -, then neighbours in the list)
	type pair struct{ a, b progRef }
	var pairs []pair
	byName := map[string]progRef{}
	for _, ref := range progs {
		byName[ref.Name] = ref
	}
	for _, tw := range [][2]string{{"routes3", "routes4"}, {"routes4", "routes3"}, {"enumsib", "othermod"}, {"othermod", "kinds"}} {
		a, okA := byName[tw[0]]
		b, okB := byName[tw[1]]
		if okA && okB {
			pairs = append(pairs, pair{a, b})
		}
	}
	for i := 0; i+1 < len(progs) && len(pairs) < 8; i += 3 {
		pairs = append(pairs, pair{progs[i], progs[i+1]})
	}
	afterRuns := 0
	for _, pr := range pairs {
		if pr.a.Kind == "repo" || pr.b.Kind == "repo" {
			continue
		}
		dirA, dirB := progDir(env, pr.a), progDir(env, pr.b)
		if d, ok := wsDir[pr.b.Name]; ok {
			dirB = d
		}
		cmd := exec.Command(fresh, append([]string{dirB}, progFiles(env, pr.b)...)...)
		cmd.Env = append(perturbedEnv(0, 4, ws, scr), "C07_BEFORE="+dirA+"|"+strings.Join(progFiles(env, pr.a), ","))
		b, err := cmd.Output()
		if err != nil {
			kernel.Harnessf("fresh process for %s after %s failed: %v", pr.b.Name, pr.a.Name, err)
		}
		var got map[string]string
		if jerr := json.Unmarshal(b, &got); jerr != nil {
			kernel.Harnessf("fresh process for %s after %s: %v", pr.b.Name, pr.a.Name, jerr)
		}
		afterRuns++
		alone := byProg[pr.b.Name][0].out
		for _, name := range gen.Names(got) {
			if alone[name] == got[name] {
				continue
			}
			v := kernel.Violation{Property: "C07", Clause: "output_depends_on_what_was_generated_before", Signature: targetOf(name),
				Detail: fmt.Sprintf("program %s/%s output %s: generated in a process of its own it has sha256 prefix %s, generated in a process that first loaded and generated program %s/%s it has %s", pr.b.Kind, pr.b.Name, name, alone[name], pr.a.Kind, pr.a.Name, got[name])}
			path := filepath.Join(kernel.ReplayDir(env), fmt.Sprintf("C07-after-%s-%s.json", pr.a.Name, pr.b.Name))
			jb, _ := json.MarshalIndent(map[string]any{"violation": v, "command": fmt.Sprintf("C07_BEFORE='%s|%s' c07fresh %s %s", dirA, strings.Join(progFiles(env, pr.a), ","), dirB, strings.Join(progFiles(env, pr.b), " "))}, "", " ")
			os.WriteFile(path, jb, 0o644)
			res.Violations = append(res.Violations, kernel.Found{V: v, File: path, Case: kernel.Case{Index: 1<<30 + 3}})
			break
		}
	}
	res.Coverage["fresh_processes_after_another_program"] = afterRuns
	// the files of a multi-file program generated in reverse order, in a process
	// of its own: per-file outputs as in the given order
	reversedRuns := 0
	for _, ref := range progs {
		files := progFiles(env, ref)
		if len(files) < 2 || ref.Kind == "repo" {
			continue
		}
		dir := progDir(env, ref)
		if d, ok := wsDir[ref.Name]; ok {
			dir = d
		}
		cmd := exec.Command(fresh, append([]string{dir}, files...)...)
		cmd.Env = append(perturbedEnv(0, 4, ws, scr), "C07_REVERSE=1")
		b, err := cmd.Output()
		if err != nil {
			kernel.Harnessf("fresh process for %s (reverse order) failed: %v", ref.Name, err)
		}
		var got map[string]string
		if jerr := json.Unmarshal(b, &got); jerr != nil {
			kernel.Harnessf("fresh process for %s (reverse order): %v", ref.Name, jerr)
		}
		reversedRuns++
		given := byProg[ref.Name][0].out
		for _, name := range gen.Names(got) {
			if strings.HasPrefix(name, "dart") || given[name] == got[name] {
				continue // (dart: one output for the whole list, in the order given)
			}
			v := kernel.Violation{Property: "C07", Clause: "output_depends_on_what_was_generated_before", Signature: targetOf(name),
				Detail: fmt.Sprintf("program %s/%s output %s: sha256 prefix %s when the files are generated in the order %v, %s in a process that generates them in reverse order", ref.Kind, ref.Name, name, given[name], files, got[name])}
			path := filepath.Join(kernel.ReplayDir(env), fmt.Sprintf("C07-reverse-%s.json", ref.Name))
			jb, _ := json.MarshalIndent(map[string]any{"violation": v, "command": fmt.Sprintf("C07_REVERSE=1 c07fresh %s %s   (compare with the same command without C07_REVERSE)", dir, strings.Join(files, " "))}, "", " ")
			os.WriteFile(path, jb, 0o644)
			res.Violations = append(res.Violations, kernel.Found{V: v, File: path, Case: kernel.Case{Index: 1<<30 + 4}})
			break
		}
	}
	res.Coverage["fresh_processes_reverse_file_order"] = reversedRuns
	res.Evals = 0
	res.Coverage["fresh_processes"] = procs
	res.Coverage["fresh_process_programs"] = len(progs)
	res.Coverage["fresh_max_distinct_texts_per_target"] = distinctTexts

	// reload tier: the same program loaded again and again in one process
	reloads := 30
	if env.Tier == "thorough" {
		reloads = 120
	}
	type rres struct {
		ref progRef
		out map[string][]string
		err string
	}
	rresults := make([]rres, len(progs))
	rdone := make(chan int)
	for i, ref := range progs {
		go func(i int, ref progRef) {
			sem <- struct{}{}
			defer func() { <-sem; rdone <- i }()
			dir := progDir(env, ref)
			if ref.Kind == "repo" {
				dir = pristine
			}
			args := append([]string{dir}, progFiles(env, ref)...)
			args = append(args, "-reload", fmt.Sprint(reloads))
			cmd := exec.Command(fresh, args...)
			cmd.Env = append(os.Environ(), "GOMAXPROCS=16")
			b, err := cmd.Output()
			r := rres{ref: ref}
			if err != nil {
				r.err = err.Error()
			} else if jerr := json.Unmarshal(b, &r.out); jerr != nil {
				r.err = jerr.Error()
			}
			rresults[i] = r
		}(i, ref)
	}
	for range progs {
		<-rdone
	}
	var reloadLoads int64
	for _, r := range rresults {
		if r.err != "" {
			kernel.Harnessf("reload run for %s failed: %s", r.ref.Name, r.err)
		}
		reloadLoads += int64(reloads)
		var names []string
		for n := range r.out {
			names = append(names, n)
		}
		sort.Strings(names)
		for _, name := range names {
			hs := r.out[name]
			if len(hs) <= 1 {
				continue
			}
			v := kernel.Violation{Property: "C07", Clause: "repeated_load_outputs_differ", Signature: r.ref.Kind + "/" + r.ref.Name + "/" + targetOf(name),
				Detail: fmt.Sprintf("program %s/%s output %s: %d distinct texts over %d loads of the same sources in one process (sha256 prefixes %v)", r.ref.Kind, r.ref.Name, name, len(hs), reloads, hs)}
			dir := progDir(env, r.ref)
			if r.ref.Kind == "repo" {
				dir = "<pristine copy of the tree>"
			}
			rep := map[string]any{"violation": v, "program": r.ref, "files": progFiles(env, r.ref),
				"command": fmt.Sprintf("GOMAXPROCS=16 c07fresh %s %s -reload %d", dir, strings.Join(progFiles(env, r.ref), " "), reloads),
				"note":    "found by the uncontrolled reload tier (go/packages parses files in goroutines the simulator does not schedule): replay is probabilistic"}
			path := filepath.Join(env.VerifDir, "evidence", "replays", fmt.Sprintf("C07-reload-%s-%s.json", r.ref.Name, strings.ReplaceAll(targetOf(name), "/", "_")))
			if ev := evidenceDir(); ev != "" {
				path = filepath.Join(ev, "replays", filepath.Base(path))
			}
			os.MkdirAll(filepath.Dir(path), 0o755)
			b, _ := json.MarshalIndent(rep, "", " ")
			os.WriteFile(path, b, 0o644)
			res.Violations = append(res.Violations, kernel.Found{V: v, File: path, Case: kernel.Case{Index: 1<<30 + 2}})
			break
		}
	}
	res.Coverage["reload_tier_loads"] = reloadLoads

	// the real CLI on a generated config
	cliRuns, cliV := runCLI(env, scr, append([]progRef(nil), progs...))
	res.Coverage["cli_runs"] = cliRuns
	res.Violations = append(res.Violations, cliV...)

	// the real Config.run under the simulator (map orders and goroutine picks)
	cmdCov, cmdV := runCmdTier(env, scr, append([]progRef(nil), progs...))
	res.Coverage["controlled_command_tier"] = cmdCov
	res.Violations = append(res.Violations, cmdV...)
	return res
}

func evidenceDir() string {
	for _, a := range os.Args {
		if strings.HasPrefix(a, "-evidence=") {
			return filepath.Dir(strings.TrimPrefix(a, "-evidence="))
		}
	}
	for i, a := range os.Args {
		if a == "-evidence" && i+1 < len(os.Args) {
			return filepath.Dir(os.Args[i+1])
		}
	}
	return ""
}

func main() { kernel.Main(c07{}) }
