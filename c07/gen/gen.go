// Package gen loads a program with the real analysis.LoadSources and runs
// every generator target on it. It has no dependency on the simulator, so the
// same code serves the controlled tier (instrumented copy, map order decided
// by the simulator) and the fresh-process tier (pristine copy).
package gen

import (
	"crypto/sha256"
	"encoding/hex"
	"fmt"
	"io"
	"log"
	"path/filepath"
	"sort"
	"strings"

	"golang.org/x/tools/go/packages"

	"github.com/benoitkugler/gomacro/analysis"
	"github.com/benoitkugler/gomacro/analysis/httpapi"
	"github.com/benoitkugler/gomacro/generator"
	"github.com/benoitkugler/gomacro/generator/dart"
	"github.com/benoitkugler/gomacro/generator/go/gounions"
	"github.com/benoitkugler/gomacro/generator/go/randdata"
	"github.com/benoitkugler/gomacro/generator/go/sqlcrud"
	"github.com/benoitkugler/gomacro/generator/sql"
	"github.com/benoitkugler/gomacro/generator/typescript"
)

type Loaded struct {
	Dir   string
	Files []string // absolute
	Pkgs  []*packages.Package
	Root  string
}

func init() { log.SetOutput(io.Discard) }

// Load type-checks the files with the real loader.
func Load(dir string, files []string) (*Loaded, error) {
	abs := make([]string, len(files))
	for i, f := range files {
		abs[i] = filepath.Join(dir, f)
	}
	pkgs, root, err := analysis.LoadSources(abs)
	if err != nil {
		return nil, err
	}
	return &Loaded{Dir: dir, Files: abs, Pkgs: pkgs, Root: root}, nil
}

func guard(outs map[string]string, name string, f func() string) {
	defer func() {
		if r := recover(); r != nil {
			outs[name] = "PANIC: " + fmt.Sprint(r)
		}
	}()
	outs[name] = f()
}

// GenerateIsolated generates every target on an analysis of its own: nothing
// generated before it can have touched the analysis (or any other state) it
// reads. The texts must equal those of GenerateAll, where the targets run one
// after the other on one shared analysis per file.
func (l *Loaded) GenerateIsolated() map[string]string {
	outs := map[string]string{}
	for i, file := range l.Files {
		rel, _ := filepath.Rel(l.Dir, file)
		fresh := func() *analysis.Analysis { return analysis.NewAnalysisFromFile(l.Pkgs[i], file) }
		guard(outs, "go/unions:"+rel, func() string { return generator.WriteDeclarations(gounions.Generate(fresh())) })
		guard(outs, "go/sqlcrud:"+rel, func() string { return generator.WriteDeclarations(sqlcrud.Generate(fresh(), false)) })
		guard(outs, "go/sqlcrud+sets:"+rel, func() string { return generator.WriteDeclarations(sqlcrud.Generate(fresh(), true)) })
		guard(outs, "go/randdata:"+rel, func() string { return generator.WriteDeclarations(randdata.Generate(fresh())) })
		guard(outs, "sql:"+rel, func() string { return generator.WriteDeclarations(sql.Generate(fresh())) })
		guard(outs, "typescript/types:"+rel, func() string { return generator.WriteDeclarations(typescript.Generate(fresh())) })
		guard(outs, "typescript/api:"+rel, func() string {
			ana := fresh()
			return typescript.GenerateAxios(httpapi.ParseEcho(ana.Pkg, file, ""))
		})
	}
	guard(outs, "dart", func() string {
		var anas []*analysis.Analysis
		for i, file := range l.Files {
			var ana *analysis.Analysis
			func() {
				defer func() { recover() }()
				ana = analysis.NewAnalysisFromFile(l.Pkgs[i], file)
			}()
			if ana != nil {
				anas = append(anas, ana)
			}
		}
		var names []string
		for _, o := range dart.Generate(l.Root, anas) {
			outs["dart:"+o.Filename] = generator.WriteDeclarations(o.Content)
			names = append(names, o.Filename)
		}
		sort.Strings(names)
		return strings.Join(names, ",")
	})
	return outs
}

// GenerateAll analyses every file afresh and runs all seven targets.
// A panic is an outcome like any other (its text is the output).
func (l *Loaded) GenerateAll() map[string]string {
	outs := map[string]string{}
	var anas []*analysis.Analysis
	for i, file := range l.Files {
		rel, _ := filepath.Rel(l.Dir, file)
		var ana *analysis.Analysis
		guard(outs, "analysis:"+rel, func() string {
			ana = analysis.NewAnalysisFromFile(l.Pkgs[i], file)
			return fmt.Sprintf("%d source types", len(ana.Source))
		})
		if ana == nil {
			continue
		}
		anas = append(anas, ana)
		guard(outs, "go/unions:"+rel, func() string { return generator.WriteDeclarations(gounions.Generate(ana)) })
		guard(outs, "go/sqlcrud:"+rel, func() string { return generator.WriteDeclarations(sqlcrud.Generate(ana, false)) })
		guard(outs, "go/sqlcrud+sets:"+rel, func() string { return generator.WriteDeclarations(sqlcrud.Generate(ana, true)) })
		guard(outs, "go/randdata:"+rel, func() string { return generator.WriteDeclarations(randdata.Generate(ana)) })
		guard(outs, "sql:"+rel, func() string { return generator.WriteDeclarations(sql.Generate(ana)) })
		guard(outs, "typescript/types:"+rel, func() string { return generator.WriteDeclarations(typescript.Generate(ana)) })
		guard(outs, "typescript/api:"+rel, func() string {
			api := httpapi.ParseEcho(ana.Pkg, file, "")
			return typescript.GenerateAxios(api)
		})
	}
	guard(outs, "dart", func() string {
		var names []string
		for _, o := range dart.Generate(l.Root, anas) {
			outs["dart:"+o.Filename] = generator.WriteDeclarations(o.Content)
			names = append(names, o.Filename)
		}
		sort.Strings(names)
		return strings.Join(names, ",")
	})
	return outs
}

// GenerateReordered loads the program again (new type objects) and generates
// the files in reverse order: what a file's outputs are must not depend on
// which other files of the same load were generated before it.
func (l *Loaded) GenerateReordered() (map[string]string, error) {
	rel := make([]string, len(l.Files))
	for i, f := range l.Files {
		r, _ := filepath.Rel(l.Dir, f)
		rel[len(l.Files)-1-i] = r
	}
	l2, err := Load(l.Dir, rel)
	if err != nil {
		return nil, err
	}
	return l2.GenerateAll(), nil
}

func Hash(s string) string {
	h := sha256.Sum256([]byte(s))
	return hex.EncodeToString(h[:8])
}

// Names returns the sorted output names.
func Names(outs map[string]string) []string {
	var ns []string
	for n := range outs {
		ns = append(ns, n)
	}
	sort.Strings(ns)
	return ns
}
