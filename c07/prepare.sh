# sourced by ./check for C07
# generated fixtures are not inputs: without goimports the sqlcrud fixture
# imports its own package and would make its package unloadable
rm -f "$SCR/repo/analysis/sql/test/crud_gen.go"
cp -a "$SCR/repo" "$SCR/repo-pristine"
rm -rf "$SCR/repo-pristine/verifsim"
instrument maprange
# fresh-process driver and the real CLI come from the pristine copy
sed "s#=> /repo#=> $SCR/repo-pristine#" "$VERIF/go.mod" > "$SCR/pristine.mod"
cp "$VERIF/go.sum" "$SCR/pristine.sum"
(cd "$VERIF" && go build -trimpath -modfile="$SCR/pristine.mod" -o "$SCR/bin/c07fresh" ./c07/fresh) >"$SCR/build.log" 2>&1 || { cat "$SCR/build.log" >&2; fail "build of the fresh-process driver failed"; }
(cd "$SCR/repo-pristine" && go build -trimpath -o "$SCR/bin/gomacro-cli" ./cmd) >"$SCR/build.log" 2>&1 || { cat "$SCR/build.log" >&2; fail "build of cmd/gomacro failed"; }
# controlled command tier: a second instrumented copy (map ranges + sync/go/exec) with a driver inside cmd/
cp -a "$SCR/repo" "$SCR/repo-cmd"
"$VERIF/bin/instr" -mode conc -repo "$SCR/repo-cmd" -report "$SCR/instr-conc.json" || fail "instrumenter (conc) failed"
cp "$VERIF/c07/cmdtier/main.go" "$SCR/repo-cmd/cmd/verif_cmdtier.go"
if (cd "$SCR/repo-cmd" && go build -trimpath -tags verif -o "$SCR/bin/c07cmd" ./cmd) >"$SCR/build.log" 2>&1; then :; else
	cp "$SCR/build.log" "$SCR/c07cmd-build.log"
	echo "note: the controlled command tier does not build on this tree (cmd package changed shape); skipped" >&2
	rm -f "$SCR/bin/c07cmd"
fi
