//go:build verif

// c07cmd is the controlled command tier of C07. It is compiled inside the
// scratch copy's cmd/ package (instrumented with both seams: map ranges and
// sync/go/exec), so that the real Config.run - source loading, one analysis
// per file, every action, saveOutputs with its formatter goroutines - runs
// under the cooperative scheduler with the simulator deciding map iteration
// orders and goroutine interleavings. Schedule 0 is canonical; the output
// tree of every other schedule must be identical.
package main

import (
	"crypto/sha256"
	"encoding/json"
	"fmt"
	"io"
	"log"
	"os"
	"os/exec"
	"path/filepath"
	"sort"
	"strconv"
	"strings"
	"time"

	"github.com/benoitkugler/gomacro/generator"
	"github.com/benoitkugler/gomacro/verifsim"
)

type rng struct{ x uint64 }

func (r *rng) next() uint64 {
	r.x += 0x9e3779b97f4a7c15
	z := r.x
	z = (z ^ (z >> 30)) * 0xbf58476d1ce4e5b9
	z = (z ^ (z >> 27)) * 0x94d049bb133111eb
	return z ^ (z >> 31)
}

func (r *rng) intn(n int) int { return int(r.next() % uint64(n)) }

func digest(dir string) string {
	var lines []string
	filepath.Walk(dir, func(path string, info os.FileInfo, err error) error {
		if err != nil || info.IsDir() {
			return nil
		}
		b, _ := os.ReadFile(path)
		rel, _ := filepath.Rel(dir, path)
		lines = append(lines, fmt.Sprintf("%s %d %x", rel, len(b), sha256.Sum256(b)))
		return nil
	})
	sort.Strings(lines)
	return strings.Join(lines, "\n")
}

type report struct {
	Schedules int      `json:"schedules"`
	Distinct  int      `json:"distinct"`
	FirstBad  int      `json:"first_differing_schedule"`
	Canonical string   `json:"canonical"`
	Other     string   `json:"other,omitempty"`
	Perturbed []string `json:"perturbed,omitempty"`
	Steps     int64    `json:"steps"`
	// CanonicalUnstable: the canonical schedule itself gave different trees
	// when repeated - the difference comes from something the simulator does
	// not own (go/packages' parser goroutines), not from the schedule
	CanonicalUnstable bool `json:"canonical_unstable"`
	StaleRuns         int  `json:"runs_over_stale_outputs"`
	SlowToolRuns      int  `json:"runs_with_slow_tools"`
}

func main() {
	if len(os.Args) < 5 {
		fmt.Fprintln(os.Stderr, "usage: c07cmd <workdir> <schedules> <seed> <only-schedule|-1> <file>...")
		os.Exit(2)
	}
	work := os.Args[1]
	nsched, _ := strconv.Atoi(os.Args[2])
	seed, _ := strconv.ParseUint(os.Args[3], 10, 64)
	only, _ := strconv.Atoi(os.Args[4])
	files := os.Args[5:]
	realOut := os.Stdout
	devnull, _ := os.OpenFile(os.DevNull, os.O_WRONLY, 0)
	os.Stdout = devnull
	log.SetOutput(io.Discard)
	// every formatter is installed: a run appends one marker line to the file it
	// is given, so that a file formatted zero or two times shows in the output tree
	verifsim.ExecHook = func(name string, args []string, dir string) ([]byte, error) {
		if len(args) == 0 {
			return nil, &exec.Error{Name: name, Err: exec.ErrNotFound}
		}
		// a command naming an existing file is a formatter run on that file,
		// whatever its other arguments; anything else is a probe
		last, isRun := "", false
		for _, a := range args {
			if st, err := os.Stat(a); err == nil && st.Mode().IsRegular() {
				last, isRun = a, true
			}
		}
		switch filepath.Base(name) {
		case "goimports", "dart", "npx", "prettier", "pg_format":
		default:
			isRun = false
		}
		if isRun {
			f, err := os.OpenFile(last, os.O_APPEND|os.O_WRONLY, 0)
			if err != nil {
				return nil, err
			}
			fmt.Fprintf(f, "\n// formatted by %s\n", filepath.Base(name))
			f.Close()
		}
		return nil, nil
	}
	verifsim.LookPathHook = func(file string) (string, error) {
		switch filepath.Base(file) {
		case "goimports", "dart", "npx", "prettier", "pg_format", "which":
			return "/usr/bin/" + filepath.Base(file), nil
		}
		return "", &exec.Error{Name: file, Err: exec.ErrNotFound}
	}
	// commands take simulated time: per schedule each tool is instantaneous or
	// slow (3 s per command, cold start) - a tool that answers late is installed
	// all the same, the outputs must not depend on how long it took
	slowMask := uint64(0)
	verifsim.ExecDurationHook = func(name string, args []string) time.Duration {
		bit := map[string]uint{"which": 0, "goimports": 0, "dart": 1, "npx": 2, "pg_format": 3}[filepath.Base(name)]
		if slowMask&(1<<bit) != 0 {
			return 3 * time.Second
		}
		return 0
	}
	if err := os.Chdir(work); err != nil {
		fmt.Fprintln(os.Stderr, err)
		os.Exit(2)
	}
	rep := report{FirstBad: -1}
	seen := map[string]bool{}
	order := make([]int, 0, nsched+3)
	for k := 0; k < nsched; k++ {
		order = append(order, k)
	}
	order = append(order, 0, 0, 0) // the canonical schedule again: it must reproduce itself
	canonicalOK := false
	for pos, k := range order {
		if only >= 0 && k != 0 && k != only {
			continue
		}
		if pos >= nsched && rep.FirstBad < 0 {
			break // nothing differed: no need to re-check the canonical schedule
		}
		// output paths are relative to the working directory, as a user writes
		// them in a configuration file: the process must not move while it saves
		outDir := fmt.Sprintf("out-%d", k)
		os.RemoveAll(outDir)
		os.MkdirAll(filepath.Join(outDir, "dart"), 0o755)
		conf := Config{"_dart": Actions{{Output: filepath.Join(outDir, "dart")}}}
		for i, f := range files {
			acts := Actions{
				{Mode: goUnionsGen, Output: filepath.Join(outDir, fmt.Sprintf("unions%d.go", i))},
				{Mode: goRanddataGen, Output: filepath.Join(outDir, fmt.Sprintf("rand%d.go", i))},
				{Mode: typescriptTypesGen, Output: filepath.Join(outDir, fmt.Sprintf("types%d.ts", i))},
				{Mode: sqlGen, Output: filepath.Join(outDir, fmt.Sprintf("create%d.sql", i))},
				{Mode: dartGen, Output: "unused"},
			}
			conf[f] = acts
			if k%3 == 1 && canonicalOK {
				// history: an older and longer generation is already on disk at
				// every output path; the new run must replace it entirely
				for _, a := range acts[:4] {
					os.WriteFile(a.Output, []byte(strings.Repeat("-- stale line of an older, longer output\n", 4000)), 0o644)
				}
				rep.StaleRuns++
			}
		}
		fmts = generator.Formatters{}
		r := &rng{x: seed*1000003 + uint64(k)}
		slowMask = 0
		if k%4 == 2 {
			slowMask = 1 + r.next()%15
			rep.SlowToolRuns++
		}
		var perturbed []string
		if k == 0 {
			verifsim.MapHook = func(site string, n int) []int { return nil }
		} else {
			verifsim.MapHook = func(site string, n int) []int {
				if n < 2 || r.intn(2) == 0 {
					return nil
				}
				perm := make([]int, n)
				for i := range perm {
					perm[i] = i
				}
				for i := n - 1; i > 0; i-- {
					j := r.intn(i + 1)
					perm[i], perm[j] = perm[j], perm[i]
				}
				perturbed = append(perturbed, fmt.Sprintf("%s%v", site, perm))
				return perm
			}
		}
		var runErr error
		sim := &verifsim.Sim{Pick: func(site string, cur int, cands []int) int {
			if k == 0 {
				return cands[0]
			}
			c := cands[r.intn(len(cands))]
			if c != cands[0] {
				perturbed = append(perturbed, fmt.Sprintf("sched:g%d", c))
			}
			return c
		}}
		simErr := sim.Run(func() { runErr = conf.run(false, true) })
		verifsim.MapHook = nil
		rep.Steps += sim.Steps
		// of a panic only the message counts: a stack trace the program attaches to
		// it names goroutine numbers and addresses that differ from run to run
		var failures []string
		for _, f := range sim.Failures {
			line, _, _ := strings.Cut(f, "\n")
			failures = append(failures, line)
		}
		errLine := fmt.Sprint(runErr)
		errLine, _, _ = strings.Cut(errLine, "\n")
		d := digest(outDir) + fmt.Sprintf("\nerr=%v sim=%v failures=%v", errLine, simErr, failures)
		d = strings.ReplaceAll(d, outDir, "<out>")
		os.RemoveAll(outDir)
		rep.Schedules++
		if pos >= nsched {
			if d != rep.Canonical {
				rep.CanonicalUnstable = true
			}
			continue
		}
		if k == 0 {
			rep.Canonical = d
			// (stale files are only planted when the command is known to complete:
			// a run that fails before writing legitimately leaves the disk alone)
			canonicalOK = runErr == nil && simErr == nil && len(sim.Failures) == 0
		} else if d != rep.Canonical && rep.FirstBad < 0 {
			rep.FirstBad, rep.Other, rep.Perturbed = k, d, perturbed
		}
		seen[d] = true
	}
	rep.Distinct = len(seen)
	json.NewEncoder(realOut).Encode(rep)
}
