// Package kernel is the property-independent half of the simulator: one PRNG,
// one decision source with record/replay, case files, minimisation, worker
// processes and the evidence writer.
package kernel

// SplitMix64 advances *x and returns the next value of the splitmix64 sequence.
func SplitMix64(x *uint64) uint64 {
	*x += 0x9e3779b97f4a7c15
	z := *x
	z = (z ^ (z >> 30)) * 0xbf58476d1ce4e5b9
	z = (z ^ (z >> 27)) * 0x94d049bb133111eb
	return z ^ (z >> 31)
}

// Mix derives the seed of run `index` of `property` from the user seed.
// It does not depend on the number of workers.
func Mix(seed uint64, property string, index int) uint64 {
	x := seed
	h := SplitMix64(&x)
	for i := 0; i < len(property); i++ {
		x ^= uint64(property[i]) + 0x100*uint64(i+1)
		h ^= SplitMix64(&x)
	}
	x ^= uint64(index) * 0xd1342543de82ef95
	h ^= SplitMix64(&x)
	x = h
	return SplitMix64(&x)
}

// Rand is xoshiro256**.
type Rand struct{ s [4]uint64 }

func NewRand(seed uint64) *Rand {
	r := &Rand{}
	x := seed
	for i := range r.s {
		r.s[i] = SplitMix64(&x)
	}
	return r
}

func rotl(x uint64, k uint) uint64 { return (x << k) | (x >> (64 - k)) }

func (r *Rand) Uint64() uint64 {
	res := rotl(r.s[1]*5, 7) * 9
	t := r.s[1] << 17
	r.s[2] ^= r.s[0]
	r.s[3] ^= r.s[1]
	r.s[1] ^= r.s[2]
	r.s[0] ^= r.s[3]
	r.s[2] ^= t
	r.s[3] = rotl(r.s[3], 45)
	return res
}

// Intn returns a value in [0,n). n<=0 returns 0.
func (r *Rand) Intn(n int) int {
	if n <= 1 {
		return 0
	}
	return int(r.Uint64() % uint64(n))
}

// Range returns a value in [lo,hi].
func (r *Rand) Range(lo, hi int) int {
	if hi <= lo {
		return lo
	}
	return lo + r.Intn(hi-lo+1)
}

func (r *Rand) Bool() bool { return r.Uint64()&1 == 1 }

// Chance returns true with probability num/den.
func (r *Rand) Chance(num, den int) bool { return r.Intn(den) < num }

func (r *Rand) Float() float64 { return float64(r.Uint64()>>11) / (1 << 53) }

// Perm returns a random permutation of [0,n).
func (r *Rand) Perm(n int) []int {
	p := make([]int, n)
	for i := range p {
		p[i] = i
	}
	for i := n - 1; i > 0; i-- {
		j := r.Intn(i + 1)
		p[i], p[j] = p[j], p[i]
	}
	return p
}

// Pick returns one element of xs.
func Pick[T any](r *Rand, xs []T) T { return xs[r.Intn(len(xs))] }

// Fork derives an independent stream (used so that adding draws in one
// component does not shift the draws of another).
func (r *Rand) Fork(label string) *Rand {
	x := r.Uint64()
	for i := 0; i < len(label); i++ {
		x = x*1099511628211 ^ uint64(label[i])
	}
	return NewRand(x)
}

// Hash64 is FNV-1a over a string, used for distinctness counting.
func Hash64(s string) uint64 {
	h := uint64(14695981039346656037)
	for i := 0; i < len(s); i++ {
		h ^= uint64(s[i])
		h *= 1099511628211
	}
	return h
}
