package kernel

import (
	"encoding/json"
	"flag"
	"fmt"
	"os"
	"os/exec"
	"path/filepath"
	"runtime"
	"runtime/debug"
	"sort"
	"strconv"
	"strings"
	"time"
)

// Violation is one failed oracle clause.
type Violation struct {
	Property string `json:"property"`
	// Clause names the oracle clause; minimisation keeps the clause fixed.
	Clause string `json:"clause"`
	// Signature identifies the concrete failing input (program, type, call
	// site ...) for matching against known_findings.jsonl.
	Signature string `json:"signature"`
	Detail    string `json:"detail"`
}

func (v Violation) Key() string { return v.Clause + "|" + v.Signature }

// HarnessError is the panic value for "the machinery cannot do its job"
// (build failure, watchdog, unexpected shape). Exit status 2, never VIOLATION.
type HarnessError struct{ Msg string }

func (h HarnessError) Error() string { return "harness: " + h.Msg }

func Harnessf(format string, a ...any) { panic(HarnessError{fmt.Sprintf(format, a...)}) }

// Outcome is what one simulated run reports.
type Outcome struct {
	Violation *Violation       `json:"violation,omitempty"`
	Steps     int64            `json:"steps"`
	Faults    map[string]int64 `json:"faults,omitempty"`
	Probes    map[string]int64 `json:"probes,omitempty"`
	// Keys are the distinctness keys this run contributes (only non-trivial
	// runs contribute any); second-level keys "name:..." are counted per name.
	Keys   []string `json:"keys,omitempty"`
	Sample any      `json:"sample,omitempty"`
	// Trouble: part of this run could not be driven on the tree under test
	// (harness trouble, never a violation). The batch goes on; unless another
	// run ends with a violation of its own, the batch ends with exit status 2.
	Trouble string `json:"trouble,omitempty"`
}

func (o *Outcome) Fault(kind string) {
	if o.Faults == nil {
		o.Faults = map[string]int64{}
	}
	o.Faults[kind]++
}

func (o *Outcome) Probe(name string) { o.ProbeN(name, 1) }

func (o *Outcome) ProbeN(name string, n int64) {
	if o.Probes == nil {
		o.Probes = map[string]int64{}
	}
	o.Probes[name] += n
}

// Case is a replay file: everything needed to re-execute one run.
type Case struct {
	Property string          `json:"property"`
	Tier     string          `json:"tier"`
	BaseSeed uint64          `json:"base_seed"`
	Index    int             `json:"index"`
	RunSeed  uint64          `json:"run_seed"`
	Params   json.RawMessage `json:"params"`
	Choices  []Choice        `json:"choices"`
	Expect   *Violation      `json:"expect,omitempty"`
	Note     string          `json:"note,omitempty"`
	Original *CaseRef        `json:"minimised_from,omitempty"`
}

type CaseRef struct {
	ParamsBytes int `json:"params_bytes"`
	Choices     int `json:"choices"`
	NonZero     int `json:"nonzero_choices"`
	Reruns      int `json:"reruns_used"`
}

// Meta is the static description a property contributes to its evidence file.
type Meta struct {
	Rule        string
	Real        []string
	Stub        []string
	Assumptions []string
	Extra       map[string]any
}

// Env is the run-time environment handed to properties.
type Env struct {
	Tier     string
	Seed     uint64
	Scratch  string // per-check scratch directory (removed by ./check)
	Repo     string // scratch copy of /repo that everything was built from
	VerifDir string
	Worker   int
	Workers  int
	Deadline time.Time
}

// Property is implemented once per claimed property.
type Property interface {
	ID() string
	Meta(env *Env) Meta
	// Runs is the number of seeded runs of the tier; <=0 means "until the
	// budget ends".
	Runs(env *Env) int
	// Generate draws the static part of run `index` (workload, faults).
	Generate(env *Env, r *Rand, index int) any
	// Execute performs one run. All run-time decisions go through ch.
	Execute(env *Env, params json.RawMessage, ch *Choices) *Outcome
	// Shrink proposes strictly simpler parameter sets.
	Shrink(params json.RawMessage) []json.RawMessage
}

// BlockProperty is optionally implemented by properties whose consecutive
// run indices share expensive setup (a loaded program): indices are then
// handed to workers in blocks of BlockSize.
type BlockProperty interface {
	BlockSize(env *Env) int
}

func nextIndex(index, block, workers int) int {
	if (index+1)%block != 0 {
		return index + 1
	}
	return index + 1 + block*(workers-1)
}

// ParentPhase is optionally implemented by properties that have tiers which
// are not seeded in-process runs (fresh-process sampling, race detector).
type ParentPhase interface {
	ParentPhase(env *Env) PhaseResult
}

type PhaseResult struct {
	Violations []Found
	Coverage   map[string]any
	Evals      int64
	Keys       []string
}

// Found is a violation together with the case that reproduces it.
type Found struct {
	V    Violation
	Case Case
	// NoReplay marks findings from uncontrolled tiers; File then already
	// holds the report.
	File string
}

type workerResult struct {
	Worker     int                 `json:"worker"`
	Evals      int64               `json:"evals"`
	Steps      int64               `json:"steps"`
	Faults     map[string]int64    `json:"faults"`
	Probes     map[string]int64    `json:"probes"`
	Keys       []uint64            `json:"keys"`
	NamedKeys  map[string][]uint64 `json:"named_keys"`
	KeysCapped bool                `json:"keys_capped"`
	Samples    []any               `json:"samples"`
	Found      []Found             `json:"found"`
	FirstIndex int                 `json:"first_index"`
	LastIndex  int                 `json:"last_index"`
	Harness    string              `json:"harness,omitempty"`
	WallS      float64             `json:"wall_s"`
}

// Out and Err are the process's original standard streams: properties may
// redirect os.Stdout / os.Stderr to silence the code under test.
var (
	Out = os.Stdout
	Err = os.Stderr
)

const keyCap = 400000

var (
	flagTier     = flag.String("tier", "quick", "quick|thorough")
	flagSeed     = flag.String("seed", "", "base seed (default $VERIF_SEED or 1)")
	flagWorkers  = flag.Int("workers", 0, "worker processes (default NumCPU)")
	flagBudget   = flag.Int("budget", 0, "wall-clock budget in seconds for the seeded loop (default per tier)")
	flagReplay   = flag.String("replay", "", "replay file")
	flagEvidence = flag.String("evidence", "", "evidence file to write")
	flagWorker   = flag.Int("worker", -1, "internal: worker index")
	flagOf       = flag.Int("of", 1, "internal: worker count")
	flagOut      = flag.String("out", "", "internal: worker result file")
	flagScratch  = flag.String("scratch", "", "scratch directory")
	flagRepo     = flag.String("repo", "", "scratch copy of the repository")
	flagVerif    = flag.String("verif", "/verif", "verif directory")
	flagDump     = flag.Int("dump", -1, "print the case of run index N and exit")
	flagCrash    = flag.String("crashcase", "", "internal: execute the case of this file in this process and report survival")
	flagTrace    = flag.String("tracelog", "", "determinism self-test: write one line per run (index, seed, hash of params+trace+verdict) to this file")
	flagRuns     = flag.Int("runs", 0, "override the number of runs")
)

func baseSeed() uint64 {
	s := *flagSeed
	if s == "" {
		s = os.Getenv("VERIF_SEED")
	}
	if s == "" {
		return 1
	}
	v, err := strconv.ParseUint(strings.TrimSpace(s), 10, 64)
	if err != nil {
		iv, err2 := strconv.ParseInt(strings.TrimSpace(s), 10, 64)
		if err2 != nil {
			fmt.Fprintf(Err, "bad seed %q\n", s)
			os.Exit(2)
		}
		v = uint64(iv)
	}
	return v
}

// Main is the entry point of every property driver.
func Main(p Property) {
	flag.Parse()
	debug.SetGCPercent(200)
	tier := *flagTier
	if t := os.Getenv("VERIF_TIER"); t != "" && !flagSet("tier") {
		tier = t
	}
	env := &Env{Tier: tier, Seed: baseSeed(), Scratch: *flagScratch, Repo: *flagRepo, VerifDir: *flagVerif,
		Worker: *flagWorker, Workers: *flagOf}
	budget := *flagBudget
	if budget == 0 {
		if b := os.Getenv("VERIF_BUDGET_S"); b != "" {
			budget, _ = strconv.Atoi(b)
		}
	}
	if budget == 0 {
		if tier == "thorough" {
			budget = 900
		} else {
			budget = 60
		}
	}
	env.Deadline = time.Now().Add(time.Duration(budget) * time.Second)

	defer func() {
		if r := recover(); r != nil {
			if h, ok := r.(HarnessError); ok {
				fmt.Fprintln(Err, "HARNESS-ERROR:", h.Msg)
				os.Exit(2)
			}
			if d, ok := r.(Divergence); ok {
				fmt.Fprintln(Err, "HARNESS-ERROR:", d.Error())
				os.Exit(2)
			}
			panic(r)
		}
	}()

	switch {
	case *flagReplay != "":
		os.Exit(replayMain(p, env, *flagReplay))
	case *flagCrash != "":
		crashChild(p, env, *flagCrash)
	case *flagDump >= 0:
		c, _ := generateCase(p, env, *flagDump)
		b, _ := json.MarshalIndent(c, "", " ")
		fmt.Fprintln(Out, string(b))
	case *flagWorker >= 0:
		// sixteen workers share the machine: past this soft limit the collector
		// works harder instead of letting the heap double once more
		debug.SetMemoryLimit(2 << 30)
		workerMain(p, env)
	default:
		os.Exit(parentMain(p, env))
	}
}

func flagSet(name string) bool {
	set := false
	flag.Visit(func(f *flag.Flag) {
		if f.Name == name {
			set = true
		}
	})
	return set
}

func generateCase(p Property, env *Env, index int) (Case, *Rand) {
	rs := Mix(env.Seed, p.ID(), index)
	r := NewRand(rs)
	params := p.Generate(env, r.Fork("gen"), index)
	pb, err := json.Marshal(params)
	if err != nil {
		Harnessf("marshal params: %v", err)
	}
	return Case{Property: p.ID(), Tier: env.Tier, BaseSeed: env.Seed, Index: index, RunSeed: rs, Params: pb}, r.Fork("run")
}

// SafeExecute runs Execute and converts a StepBudget panic into an outcome
// the property can judge (it is handed back through the returned flag).
func safeExecute(p Property, env *Env, params json.RawMessage, ch *Choices) (out *Outcome) {
	return p.Execute(env, params, ch)
}

func workerMain(p Property, env *Env) {
	start := time.Now()
	res := workerResult{Worker: env.Worker, Faults: map[string]int64{}, Probes: map[string]int64{}, FirstIndex: -1,
		NamedKeys: map[string][]uint64{}}
	seen := map[uint64]bool{}
	seenNamed := map[string]map[uint64]bool{}
	foundKeys := map[string]bool{}
	total := p.Runs(env)
	if *flagRuns > 0 {
		total = *flagRuns
	}
	var tl *os.File
	if *flagTrace != "" {
		var err error
		tl, err = os.Create(fmt.Sprintf("%s.%d", *flagTrace, env.Worker))
		if err != nil {
			Harnessf("tracelog: %v", err)
		}
		defer tl.Close()
	}
	func() {
		defer func() {
			if r := recover(); r != nil {
				switch e := r.(type) {
				case HarnessError:
					res.Harness = e.Msg
				case Divergence:
					res.Harness = e.Error()
				default:
					res.Harness = fmt.Sprintf("panic in worker: %v\n%s", r, debug.Stack())
				}
			}
		}()
		block := 1
		if bp, ok := p.(BlockProperty); ok {
			block = bp.BlockSize(env)
		}
		// run `index` belongs to worker (index/block) mod workers: a property
		// with expensive per-program setup keeps one program on one worker
		for index := env.Worker * block; total <= 0 || index < total; index = nextIndex(index, block, env.Workers) {
			if time.Now().After(env.Deadline) {
				break
			}
			c, runRng := generateCase(p, env, index)
			ch := Record(runRng)
			// the run in progress is on disk: should the code under test take
			// the whole process down (runtime fatal error: deadlock, stack
			// exhaustion, concurrent map access), the parent knows which run it was
			os.WriteFile(*flagOut+".current", []byte(strconv.Itoa(index)), 0o644)
			out := safeExecute(p, env, c.Params, ch)
			res.Evals++
			if out.Trouble != "" && res.Harness == "" {
				res.Harness = out.Trouble
			}
			if res.FirstIndex < 0 {
				res.FirstIndex = index
			}
			res.LastIndex = index
			res.Steps += out.Steps
			for k, v := range out.Faults {
				res.Faults[k] += v
			}
			for k, v := range out.Probes {
				res.Probes[k] += v
			}
			for _, k := range out.Keys {
				if name, rest, ok := strings.Cut(k, ":"); ok && strings.HasPrefix(name, "@") {
					m := seenNamed[name]
					if m == nil {
						m = map[uint64]bool{}
						seenNamed[name] = m
					}
					h := Hash64(rest)
					if !m[h] && len(m) < keyCap {
						m[h] = true
					}
					continue
				}
				h := Hash64(k)
				if !seen[h] {
					if len(seen) < keyCap {
						seen[h] = true
					} else {
						res.KeysCapped = true
					}
				}
			}
			if out.Sample != nil && len(res.Samples) < 3 {
				res.Samples = append(res.Samples, out.Sample)
			}
			if tl != nil {
				vb, _ := json.Marshal(out.Violation)
				tb, _ := json.Marshal(ch.Trace)
				kb, _ := json.Marshal(out.Keys)
				fmt.Fprintf(tl, "%d %d %016x %016x %016x %016x %d\n", index, c.RunSeed, Hash64(string(c.Params)), Hash64(string(tb)), Hash64(string(vb)), Hash64(string(kb)), out.Steps)
			}
			if out.Violation != nil {
				k := out.Violation.Key()
				if !foundKeys[k] && len(res.Found) < 8 {
					foundKeys[k] = true
					c.Choices = ch.Trace
					c.Expect = out.Violation
					res.Found = append(res.Found, Found{V: *out.Violation, Case: c})
				}
			}
		}
	}()
	for h := range seen {
		res.Keys = append(res.Keys, h)
	}
	sort.Slice(res.Keys, func(i, j int) bool { return res.Keys[i] < res.Keys[j] })
	for name, m := range seenNamed {
		var ks []uint64
		for h := range m {
			ks = append(ks, h)
		}
		sort.Slice(ks, func(i, j int) bool { return ks[i] < ks[j] })
		res.NamedKeys[name] = ks
	}
	res.WallS = time.Since(start).Seconds()
	b, err := json.Marshal(res)
	if err != nil {
		fmt.Fprintln(Err, "HARNESS-ERROR: marshal worker result:", err)
		os.Exit(2)
	}
	if err := os.WriteFile(*flagOut, b, 0o644); err != nil {
		fmt.Fprintln(Err, "HARNESS-ERROR:", err)
		os.Exit(2)
	}
	os.Remove(*flagOut + ".current")
}

// killedClause is the clause of a run during which the code under test took
// the whole process down.
const killedClause = "process_killed_by_code_under_test"

// crashChild executes one stored case in this process. It is only reached by
// the end when the process survives.
func crashChild(p Property, env *Env, path string) {
	b, err := os.ReadFile(path)
	if err != nil {
		Harnessf("%v", err)
	}
	var c Case
	if err := json.Unmarshal(b, &c); err != nil {
		Harnessf("bad case file: %v", err)
	}
	env.Tier = c.Tier
	env.Seed = c.BaseSeed
	var ch *Choices
	if c.Choices != nil {
		ch = Replay(c.Choices, false)
	} else {
		// the decisions of a run that never finished were not recorded: they
		// are drawn again from the run seed, exactly as the worker drew them
		r := NewRand(c.RunSeed)
		r.Fork("gen")
		ch = Record(r.Fork("run"))
	}
	p.Execute(env, c.Params, ch)
	fmt.Fprintln(Out, "CRASHCASE-SURVIVED")
	os.Exit(0)
}

// probeCrash runs the case of `path` in a child process of its own and tells
// whether the Go runtime killed it while code of the repository was on a stack.
func probeCrash(env *Env, path string) (killed bool, detail string) {
	args := []string{"-crashcase", path}
	flag.Visit(func(f *flag.Flag) {
		switch f.Name {
		case "worker", "of", "out", "workers", "replay", "crashcase", "seed", "tier", "evidence":
		default:
			args = append(args, "-"+f.Name+"="+f.Value.String())
		}
	})
	if !flagSet("scratch") && env.Scratch != "" {
		args = append(args, "-scratch="+env.Scratch)
	}
	cmd := exec.Command(os.Args[0], args...)
	var buf strings.Builder
	cmd.Stdout = &buf
	cmd.Stderr = &buf
	cmd.Env = append(os.Environ(), "GOMAXPROCS=2")
	done := make(chan error, 1)
	if err := cmd.Start(); err != nil {
		Harnessf("start crash probe: %v", err)
	}
	go func() { done <- cmd.Wait() }()
	var err error
	select {
	case err = <-done:
	case <-time.After(10 * time.Minute):
		cmd.Process.Kill()
		<-done
		return false, "the crash probe did not end within ten minutes"
	}
	text := buf.String()
	if err == nil || strings.Contains(text, "CRASHCASE-SURVIVED") || strings.Contains(text, "HARNESS-ERROR") {
		return false, text
	}
	i := strings.Index(text, "fatal error: ")
	if i < 0 || !strings.Contains(text[i:], "github.com/benoitkugler/gomacro/") {
		return false, text
	}
	lines := strings.Split(text[i:], "\n")
	if len(lines) > 60 {
		lines = append(lines[:60], "...")
	}
	return true, strings.Join(lines, "\n")
}

// crashFinding turns the run a dead worker was executing into a finding, when
// executing it alone kills the process again.
func crashFinding(p Property, env *Env, index int) *Found {
	c, _ := generateCase(p, env, index)
	v := Violation{Property: p.ID(), Clause: killedClause}
	c.Expect = &v
	path := WriteReplay(env, c)
	killed, detail := probeCrash(env, path)
	if !killed {
		os.Remove(path)
		return nil
	}
	first, _, _ := strings.Cut(detail, "\n")
	v.Signature = first
	v.Detail = "executing this run alone in a fresh process, the Go runtime killed the process while code of the repository was running:\n" + detail
	c.Expect = &v
	path = WriteReplay(env, c)
	return &Found{V: v, Case: c, File: path}
}

func parentMain(p Property, env *Env) int {
	start := time.Now()
	n := *flagWorkers
	if n <= 0 {
		n = runtime.NumCPU()
	}
	if total := p.Runs(env); total > 0 && total < n {
		n = total
	}
	if env.Scratch == "" {
		d, err := os.MkdirTemp("/var/tmp", "verif-run.")
		if err != nil {
			Harnessf("%v", err)
		}
		env.Scratch = d
		defer os.RemoveAll(d)
	}
	fmt.Fprintf(Out, "[%s] tier=%s seed=%d workers=%d\n", p.ID(), env.Tier, env.Seed, n)
	type proc struct {
		cmd *exec.Cmd
		out string
	}
	var procs []proc
	for w := 0; w < n; w++ {
		out := filepath.Join(env.Scratch, fmt.Sprintf("worker-%s-%d.json", p.ID(), w))
		args := []string{"-worker", strconv.Itoa(w), "-of", strconv.Itoa(n), "-out", out}
		flag.Visit(func(f *flag.Flag) {
			switch f.Name {
			case "worker", "of", "out", "workers":
			default:
				args = append(args, "-"+f.Name+"="+f.Value.String())
			}
		})
		if !flagSet("scratch") {
			args = append(args, "-scratch="+env.Scratch)
		}
		if !flagSet("seed") {
			args = append(args, "-seed="+strconv.FormatUint(env.Seed, 10))
		}
		if !flagSet("tier") {
			args = append(args, "-tier="+env.Tier)
		}
		cmd := exec.Command(os.Args[0], args...)
		cmd.Stdout = Err // worker chatter must never look like a verdict
		cmd.Stderr = Err
		gmp := os.Getenv("VERIF_WORKER_GOMAXPROCS")
		if gmp == "" {
			gmp = "2"
		}
		cmd.Env = append(os.Environ(), "GOMAXPROCS="+gmp)
		if err := cmd.Start(); err != nil {
			Harnessf("start worker: %v", err)
		}
		procs = append(procs, proc{cmd, out})
	}
	agg := workerResult{Faults: map[string]int64{}, Probes: map[string]int64{}, FirstIndex: -1}
	keys := map[uint64]bool{}
	named := map[string]map[uint64]bool{}
	var found []Found
	harness := ""
	// workers that died without a result: the run each was executing is probed
	// alone in a fresh process. A death that the probe reproduces is a finding;
	// the others (the process state left by an earlier run of that worker was
	// part of the cause) make the batch unusable - unless a reproduced finding
	// already makes its verdict a violation, which incompleteness cannot change
	crashConfirmed := false
	var unexplained []string
	for _, pr := range procs {
		err := pr.cmd.Wait()
		b, rerr := os.ReadFile(pr.out)
		if rerr != nil {
			if cur, cerr := os.ReadFile(pr.out + ".current"); cerr == nil {
				if index, aerr := strconv.Atoi(strings.TrimSpace(string(cur))); aerr == nil {
					if f := crashFinding(p, env, index); f != nil {
						found = append(found, *f)
						crashConfirmed = true
						fmt.Fprintf(Err, "--- %s violation, clause %s\n%s\n", p.ID(), f.V.Clause, f.V.Detail)
						continue
					}
				}
			}
			unexplained = append(unexplained, fmt.Sprintf("worker produced no result (%v, %v)", err, rerr))
			continue
		}
		var r workerResult
		if jerr := json.Unmarshal(b, &r); jerr != nil {
			harness = "bad worker result: " + jerr.Error()
			continue
		}
		if r.Harness != "" {
			harness = r.Harness
		}
		agg.Evals += r.Evals
		agg.Steps += r.Steps
		for k, v := range r.Faults {
			agg.Faults[k] += v
		}
		for k, v := range r.Probes {
			agg.Probes[k] += v
		}
		for _, h := range r.Keys {
			keys[h] = true
		}
		for name, ks := range r.NamedKeys {
			if named[name] == nil {
				named[name] = map[uint64]bool{}
			}
			for _, h := range ks {
				named[name][h] = true
			}
		}
		agg.KeysCapped = agg.KeysCapped || r.KeysCapped
		if len(agg.Samples) < 4 {
			agg.Samples = append(agg.Samples, r.Samples...)
		}
		found = append(found, r.Found...)
		if agg.FirstIndex < 0 || (r.FirstIndex >= 0 && r.FirstIndex < agg.FirstIndex) {
			agg.FirstIndex = r.FirstIndex
		}
		if r.LastIndex > agg.LastIndex {
			agg.LastIndex = r.LastIndex
		}
	}
	for _, u := range unexplained {
		if crashConfirmed {
			fmt.Fprintln(Err, "note:", u, "- not probed further: a reproduced process death is already reported")
		} else if harness == "" {
			harness = u
		}
	}
	if harness != "" && len(found) == 0 {
		fmt.Fprintln(Err, "HARNESS-ERROR:", harness)
		return 2
	}
	if harness != "" {
		// part of the batch could not be driven, but other runs ended with a
		// violation of their own, each with a replay file: those are reported
		// (incompleteness cannot turn a violation into a pass); should every one
		// of them turn out to be a listed finding, the trouble decides after all
		fmt.Fprintln(Err, "note: part of the batch could not be driven:", harness)
	}
	loopWall := time.Since(start).Seconds()

	extraCov := map[string]any{}
	if pp, ok := p.(ParentPhase); ok {
		env.Worker = -1
		pr := pp.ParentPhase(env)
		found = append(found, pr.Violations...)
		for k, v := range pr.Coverage {
			extraCov[k] = v
		}
		agg.Evals += pr.Evals
		for _, k := range pr.Keys {
			keys[Hash64(k)] = true
		}
	}

	// one report per distinct (clause, signature), lowest index first
	sort.SliceStable(found, func(i, j int) bool { return found[i].Case.Index < found[j].Case.Index })
	kf := LoadFindings(filepath.Join(env.VerifDir, "known_findings.jsonl"))
	seenKey := map[string]bool{}
	var reports []string
	var knownSeen []string
	violations := 0
	var violSamples []any
	for _, f := range found {
		if seenKey[f.V.Key()] {
			continue
		}
		seenKey[f.V.Key()] = true
		if e := kf.Match(p.ID(), f.V); e != nil {
			line := fmt.Sprintf("KNOWN-FINDING: property=%s %s [%s]", p.ID(), e.What, f.V.Signature)
			knownSeen = append(knownSeen, line)
			continue
		}
		if len(reports) >= 5 {
			violations++
			continue
		}
		path := f.File
		if path == "" {
			min := Minimise(p, env, f.Case, f.V, 300)
			path = WriteReplay(env, min)
			if min.Expect != nil {
				d := min.Expect.Detail
				if len(d) > 3000 {
					d = d[:3000] + "..."
				}
				fmt.Fprintf(Err, "--- %s violation, clause %s [%s] (minimised: %d params bytes, %d decisions, %d non-default)\n%s\n", p.ID(), min.Expect.Clause, min.Expect.Signature, len(min.Params), len(min.Choices), nonZero(min.Choices), d)
			}
			// the minimised signature may differ from the original one;
			// a minimised case that lands on a known finding is still
			// reported under its original signature.
		}
		violations++
		reports = append(reports, fmt.Sprintf("VIOLATION property=%s replay=%s", p.ID(), path))
		violSamples = append(violSamples, map[string]any{"violation": f.V, "replay": path})
	}
	sort.Strings(knownSeen)
	for _, l := range knownSeen {
		fmt.Fprintln(Out, l)
	}

	meta := p.Meta(env)
	wall := time.Since(start).Seconds()
	cov := map[string]any{
		"evaluations":         agg.Evals,
		"distinct_nontrivial": len(keys),
		"rule":                meta.Rule,
		"samples":             append(agg.Samples, violSamples...),
		"runs_per_hour":       int64(float64(agg.Evals) / loopWall * 3600),
		"seeds": map[string]any{"base": env.Seed, "first_index": agg.FirstIndex, "last_index": agg.LastIndex,
			"derivation": "run_seed = splitmix-mix(base, property id, index); params from fork 'gen', run-time decisions from fork 'run' of xoshiro256**(run_seed)"},
		"logical_steps":        agg.Steps,
		"simulated_time":       "n/a: the code under test has no clock, timer or deadline; logical steps (decisions, statements, calls) are reported instead",
		"faults_injected":      agg.Faults,
		"probes":               agg.Probes,
		"components":           map[string]any{"real": meta.Real, "stub": meta.Stub},
		"distinct_keys_capped": agg.KeysCapped,
		"known_findings_seen":  knownSeen,
		"workers":              n,
	}
	dn := map[string]int{}
	for name, m := range named {
		dn[name] = len(m)
	}
	cov["distinct_by_measure"] = dn
	for k, v := range meta.Extra {
		cov[k] = v
	}
	for k, v := range extraCov {
		cov[k] = v
	}
	if len(cov["samples"].([]any)) == 0 {
		cov["samples"] = []any{"(no sample recorded)"}
	}
	ev := map[string]any{
		"property_id": p.ID(), "tier": env.Tier, "seed": int64(env.Seed & 0x7fffffffffffffff), "level": "exploration",
		"coverage": cov, "assumptions": meta.Assumptions, "wall_s": wall, "violations": violations,
	}
	evPath := *flagEvidence
	if evPath == "" {
		evPath = filepath.Join(env.VerifDir, "evidence", p.ID()+".json")
	}
	os.MkdirAll(filepath.Dir(evPath), 0o755)
	b, _ := json.MarshalIndent(ev, "", " ")
	if err := os.WriteFile(evPath, append(b, '\n'), 0o644); err != nil {
		Harnessf("write evidence: %v", err)
	}
	fmt.Fprintf(Out, "[%s] runs=%d distinct=%d steps=%d wall=%.1fs faults=%v\n", p.ID(), agg.Evals, len(keys), agg.Steps, wall, agg.Faults)
	for _, r := range reports {
		fmt.Fprintln(Out, r)
	}
	if violations > 0 {
		return 1
	}
	if harness != "" {
		fmt.Fprintln(Err, "HARNESS-ERROR:", harness)
		return 2
	}
	fmt.Fprintf(Out, "[%s] OK: property held on everything explored\n", p.ID())
	return 0
}

// ReplayDir is where replay files of this invocation go.
func ReplayDir(env *Env) string {
	dir := filepath.Join(env.VerifDir, "evidence", "replays")
	if *flagEvidence != "" {
		dir = filepath.Join(filepath.Dir(*flagEvidence), "replays")
	}
	os.MkdirAll(dir, 0o755)
	return dir
}

// WriteReplay stores a case under evidence/replays and returns its path.
func WriteReplay(env *Env, c Case) string {
	dir := ReplayDir(env)
	path := filepath.Join(dir, fmt.Sprintf("%s-%d-%d.json", c.Property, c.BaseSeed, c.Index))
	b, _ := json.MarshalIndent(c, "", " ")
	if err := os.WriteFile(path, append(b, '\n'), 0o644); err != nil {
		Harnessf("write replay: %v", err)
	}
	return path
}

func replayMain(p Property, env *Env, path string) int {
	b, err := os.ReadFile(path)
	if err != nil {
		Harnessf("%v", err)
	}
	var c Case
	if err := json.Unmarshal(b, &c); err != nil {
		Harnessf("bad replay file: %v", err)
	}
	if c.Property != p.ID() {
		Harnessf("replay file is for %s, not %s", c.Property, p.ID())
	}
	env.Tier = c.Tier
	env.Seed = c.BaseSeed
	if c.Expect != nil && c.Expect.Clause == killedClause {
		// this case kills the process that executes it: it is replayed in a child
		killed, detail := probeCrash(env, path)
		if !killed {
			fmt.Fprintf(Out, "[%s] replay %s: the process survives (the tree under test no longer fails this case)\n", p.ID(), path)
			return 0
		}
		fmt.Fprintf(Out, "[%s] replay reproduced: clause=%s\n%s\n", p.ID(), killedClause, detail)
		fmt.Fprintf(Out, "VIOLATION property=%s replay=%s\n", p.ID(), path)
		return 1
	}
	ch := Replay(c.Choices, true)
	out := p.Execute(env, c.Params, ch)
	if out.Violation == nil {
		fmt.Fprintf(Out, "[%s] replay %s: no violation (the tree under test no longer fails this case)\n", p.ID(), path)
		return 0
	}
	fmt.Fprintf(Out, "[%s] replay reproduced: clause=%s signature=%s\n%s\n", p.ID(), out.Violation.Clause, out.Violation.Signature, out.Violation.Detail)
	if c.Expect != nil && c.Expect.Clause != out.Violation.Clause {
		fmt.Fprintf(Out, "[%s] note: recorded clause was %s\n", p.ID(), c.Expect.Clause)
	}
	fmt.Fprintf(Out, "VIOLATION property=%s replay=%s\n", p.ID(), path)
	return 1
}
