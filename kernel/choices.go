package kernel

import "fmt"

// Choice is one dynamic decision taken during a run (scheduler pick,
// permutation index, fault coin).
type Choice struct {
	Site string `json:"s"`
	N    int    `json:"n"`
	C    int    `json:"c"`
}

// Divergence is the panic value raised in strict replay when the code asks
// for a decision the recorded trace does not contain: a simulator bug, never a
// property violation.
type Divergence struct{ Msg string }

func (d Divergence) Error() string { return "replay divergence: " + d.Msg }

// Choices is the single source of run-time decisions. In record mode they
// come from the run's PRNG and are appended to Trace; in replay mode they come
// from the given trace. Lenient replay (used while minimising, where removing
// one decision legitimately changes the following ones) falls back to choice
// 0 - "the boring option" at every site by convention - when the trace runs
// out or does not fit; strict replay panics with Divergence instead.
type Choices struct {
	rng      *Rand
	replay   []Choice
	pos      int
	strict   bool
	Trace    []Choice
	Diverged bool
	// Limit bounds the number of decisions of one run (0 = none); reaching
	// it panics with StepBudget.
	Limit int
}

type StepBudget struct{}

func Record(rng *Rand) *Choices { return &Choices{rng: rng} }

func Replay(trace []Choice, strict bool) *Choices {
	return &Choices{replay: trace, strict: strict, Diverged: false}
}

// Choose returns a value in [0,n). Choice 0 must be the least surprising
// alternative at every site (no fault, keep running, identity permutation).
func (c *Choices) Choose(site string, n int) int {
	if n <= 0 {
		panic(fmt.Sprintf("Choose(%s,%d)", site, n))
	}
	if c.Limit > 0 && len(c.Trace) >= c.Limit {
		panic(StepBudget{})
	}
	var v int
	switch {
	case c.rng != nil:
		v = c.rng.Intn(n)
	case c.pos < len(c.replay):
		e := c.replay[c.pos]
		if e.Site != site || e.N != n {
			if c.strict {
				panic(Divergence{fmt.Sprintf("decision %d: trace has %s/%d, code asks %s/%d", c.pos, e.Site, e.N, site, n)})
			}
			c.Diverged = true
			// lenient: resynchronise on the next recorded decision for this
			// site (the candidate dropped some decisions), else default
			found := -1
			for j := c.pos; j < len(c.replay) && j < c.pos+256; j++ {
				if c.replay[j].Site == site && c.replay[j].N == n {
					found = j
					break
				}
			}
			if found < 0 {
				c.Trace = append(c.Trace, Choice{site, n, 0})
				return 0
			}
			c.pos = found
			e = c.replay[c.pos]
		}
		c.pos++
		v = e.C
		if v >= n || v < 0 {
			v = 0
		}
	default:
		if c.strict {
			panic(Divergence{fmt.Sprintf("decision %d: trace exhausted, code asks %s/%d", c.pos, site, n)})
		}
		c.Diverged = true
		v = 0
	}
	c.Trace = append(c.Trace, Choice{site, n, v})
	return v
}

// Coin returns true with probability about num/den; false is choice 0.
func (c *Choices) Coin(site string, num, den int) bool {
	if num <= 0 {
		return false
	}
	v := c.Choose(site, den)
	// map so that value 0 is "false": true iff v > den-num-1+... keep simple:
	return v >= den-num
}

// Unused reports whether a strict replay left recorded decisions unconsumed.
func (c *Choices) Unused() int {
	if c.replay == nil {
		return 0
	}
	return len(c.replay) - c.pos
}
