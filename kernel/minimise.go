package kernel

import (
	"encoding/json"
)

func nonZero(cs []Choice) int {
	n := 0
	for _, c := range cs {
		if c.C != 0 {
			n++
		}
	}
	return n
}

// tryCase re-executes a candidate leniently and reports whether the same
// oracle clause still fails; on success it returns the case with the trace
// the run really took (so the stored file replays strictly).
func tryCase(p Property, env *Env, c Case, clause string) (Case, *Violation, bool) {
	var out *Outcome
	ch := Replay(c.Choices, false)
	ch.Limit = 4*len(c.Choices) + 100000
	func() {
		defer func() {
			if r := recover(); r != nil {
				switch r.(type) {
				case HarnessError, StepBudget:
					out = nil // candidate left the domain the harness can drive: reject
				default:
					panic(r)
				}
			}
		}()
		out = p.Execute(env, c.Params, ch)
	}()
	if out == nil || out.Violation == nil || out.Violation.Clause != clause {
		return c, nil, false
	}
	c.Choices = ch.Trace
	c.Expect = out.Violation
	return c, out.Violation, true
}

// Minimise shrinks the static parameters (property-specific candidates) and
// the decision trace (generic: reset groups of non-default decisions to the
// default, ddmin style) while the same clause keeps failing.
func Minimise(p Property, env *Env, c Case, v Violation, budget int) Case {
	orig := CaseRef{ParamsBytes: len(c.Params), Choices: len(c.Choices), NonZero: nonZero(c.Choices)}
	cur := c
	cur.Expect = &v
	// the recorded run must reproduce in this process before we start
	if chk, _, ok := tryCase(p, env, cur, v.Clause); ok {
		cur = chk
	} else {
		cur.Note = "not minimised: the recorded run did not reproduce in the reporting process"
		return cur
	}
	used := 0
	for used < budget {
		improved := false
		for _, cand := range p.Shrink(cur.Params) {
			if used >= budget {
				break
			}
			used++
			cc := cur
			cc.Params = cand
			if got, _, ok := tryCase(p, env, cc, v.Clause); ok {
				cur = got
				improved = true
				break
			}
		}
		if improved {
			continue
		}
		// decisions: indices of non-default choices
		var idx []int
		for i, ch := range cur.Choices {
			if ch.C != 0 {
				idx = append(idx, i)
			}
		}
		for chunk := len(idx); chunk >= 1 && !improved && used < budget; chunk /= 2 {
			for start := 0; start < len(idx) && used < budget; start += chunk {
				end := start + chunk
				if end > len(idx) {
					end = len(idx)
				}
				cc := cur
				cc.Choices = append([]Choice(nil), cur.Choices...)
				for _, i := range idx[start:end] {
					cc.Choices[i].C = 0
				}
				used++
				if got, _, ok := tryCase(p, env, cc, v.Clause); ok && (nonZero(got.Choices) < nonZero(cur.Choices) || len(got.Choices) < len(cur.Choices)) {
					cur = got
					improved = true
					break
				}
			}
		}
		// individual decisions: lower the value (prefer simpler alternatives)
		if !improved {
			for _, i := range idx {
				if used >= budget || i >= len(cur.Choices) || cur.Choices[i].C <= 1 {
					continue // (an accepted candidate may have shortened the trace)
				}
				cc := cur
				cc.Choices = append([]Choice(nil), cur.Choices...)
				cc.Choices[i].C = 1
				used++
				if got, _, ok := tryCase(p, env, cc, v.Clause); ok && len(got.Choices) <= len(cur.Choices) {
					cur = got
				}
			}
		}
		if !improved {
			break
		}
	}
	orig.Reruns = used
	cur.Original = &orig
	// strict confirmation
	func() {
		defer func() {
			if r := recover(); r != nil {
				if _, ok := r.(Divergence); ok {
					cur = c
					cur.Expect = &v
					cur.Note = "minimised case did not replay strictly; original case stored"
					return
				}
				panic(r)
			}
		}()
		ch := Replay(cur.Choices, true)
		out := p.Execute(env, cur.Params, ch)
		if out.Violation == nil || out.Violation.Clause != v.Clause {
			cur = c
			cur.Expect = &v
			cur.Note = "minimised case did not replay strictly; original case stored"
		}
	}()
	return cur
}

// ShrinkList is a helper for property Shrink functions: candidates of a JSON
// array with one chunk removed (halves first, then single elements).
func ShrinkList[T any](xs []T) [][]T {
	var out [][]T
	n := len(xs)
	if n == 0 {
		return nil
	}
	for chunk := n / 2; chunk >= 1; chunk /= 2 {
		for start := 0; start+chunk <= n; start += chunk {
			cand := append(append([]T(nil), xs[:start]...), xs[start+chunk:]...)
			out = append(out, cand)
		}
		if chunk == 1 {
			break
		}
	}
	if n == 1 {
		out = append(out, []T{})
	}
	return out
}

func MustJSON(v any) json.RawMessage {
	b, err := json.Marshal(v)
	if err != nil {
		Harnessf("marshal: %v", err)
	}
	return b
}
