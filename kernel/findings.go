package kernel

import (
	"bufio"
	"encoding/json"
	"os"
	"strings"
)

// Finding is one line of known_findings.jsonl. Only status "open" suppresses
// a report, and only for violations whose clause and signature match; "fixed"
// entries are documentation.
type Finding struct {
	Status    string `json:"status"` // open | fixed
	Property  string `json:"property"`
	Clause    string `json:"clause"`
	Signature string `json:"signature"` // exact match, or prefix match when it ends in '*'
	What      string `json:"what"`
	Commit    string `json:"commit,omitempty"`
}

type Findings []Finding

func LoadFindings(path string) Findings {
	f, err := os.Open(path)
	if err != nil {
		return nil
	}
	defer f.Close()
	var out Findings
	sc := bufio.NewScanner(f)
	sc.Buffer(make([]byte, 1<<20), 1<<20)
	for sc.Scan() {
		line := strings.TrimSpace(sc.Text())
		if line == "" || strings.HasPrefix(line, "#") || strings.HasPrefix(line, "fixed:") {
			continue
		}
		var e Finding
		if json.Unmarshal([]byte(line), &e) == nil {
			out = append(out, e)
		}
	}
	return out
}

func (fs Findings) Match(property string, v Violation) *Finding {
	for i := range fs {
		e := &fs[i]
		if e.Status != "open" || e.Property != property || e.Clause != v.Clause {
			continue
		}
		if e.Signature == v.Signature {
			return e
		}
		if strings.HasSuffix(e.Signature, "*") && strings.HasPrefix(v.Signature, strings.TrimSuffix(e.Signature, "*")) {
			return e
		}
	}
	return nil
}
