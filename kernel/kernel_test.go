package kernel

import (
	"encoding/json"
	"testing"
)

// toy property: params = list of ints; dynamic decisions = one coin per
// element; the "bug" fires when an element >= 7 meets a coin that came up 1.
type toy struct{}

func (toy) ID() string                                { return "T00" }
func (toy) Meta(*Env) Meta                            { return Meta{} }
func (toy) Runs(*Env) int                             { return 10 }
func (toy) Generate(env *Env, r *Rand, index int) any { return []int{1, 9, 3, 8, 2} }
func (toy) Shrink(raw json.RawMessage) []json.RawMessage {
	var xs []int
	json.Unmarshal(raw, &xs)
	var out []json.RawMessage
	for _, c := range ShrinkList(xs) {
		out = append(out, MustJSON(c))
	}
	return out
}
func (toy) Execute(env *Env, raw json.RawMessage, ch *Choices) *Outcome {
	var xs []int
	json.Unmarshal(raw, &xs)
	out := &Outcome{}
	for _, x := range xs {
		if ch.Choose("coin", 2) == 1 && x >= 7 {
			out.Violation = &Violation{Property: "T00", Clause: "big_with_coin", Signature: "toy"}
		}
	}
	return out
}

func TestMinimiseAndStrictReplay(t *testing.T) {
	p := toy{}
	env := &Env{}
	c := Case{Property: "T00", Params: MustJSON([]int{1, 9, 3, 8, 2}),
		Choices: []Choice{{"coin", 2, 1}, {"coin", 2, 1}, {"coin", 2, 1}, {"coin", 2, 1}, {"coin", 2, 1}}}
	v := Violation{Clause: "big_with_coin"}
	min := Minimise(p, env, c, v, 200)
	var xs []int
	json.Unmarshal(min.Params, &xs)
	if len(xs) != 1 || xs[0] < 7 || len(min.Choices) != 1 || min.Choices[0].C != 1 {
		t.Fatalf("not minimal: params %s choices %v", min.Params, min.Choices)
	}
	// strict replay reproduces
	out := p.Execute(env, min.Params, Replay(min.Choices, true))
	if out.Violation == nil {
		t.Fatal("minimised case does not replay")
	}
	// strict replay refuses a trace that does not fit
	defer func() {
		if _, ok := recover().(Divergence); !ok {
			t.Fatal("expected a divergence")
		}
	}()
	p.Execute(env, MustJSON([]int{9, 9}), Replay(min.Choices, true))
}

func TestSeedsAreIndependentOfWorkers(t *testing.T) {
	if Mix(1, "C05", 7) != Mix(1, "C05", 7) || Mix(1, "C05", 7) == Mix(1, "C05", 8) || Mix(1, "C05", 7) == Mix(2, "C05", 7) || Mix(1, "C05", 7) == Mix(1, "C07", 7) {
		t.Fatal("mix")
	}
	for _, w := range []int{1, 3, 16} {
		seen := map[int]bool{}
		for wk := 0; wk < w; wk++ {
			for i := wk * 4; i < 100; i = nextIndex(i, 4, w) {
				if seen[i] {
					t.Fatalf("index %d visited twice", i)
				}
				seen[i] = true
			}
		}
		if len(seen) != 100 {
			t.Fatalf("workers=%d visited %d of 100 indices", w, len(seen))
		}
	}
}
