// Package batch writes several programs as sibling packages of one module
// (module path example.com/vs), so that the generated Go code of all of them
// is compiled and linked once into a single driver binary.
package batch

import (
	"encoding/json"
	"fmt"
	"go/ast"
	"go/parser"
	"go/token"
	"os"
	"os/exec"
	"path/filepath"
	"sort"
	"strings"

	"verif/synth"
)

const Module = "example.com/vs"

// WriteModule creates the batch directory with its go.mod.
func WriteModule(dir, verifDir, repoCopy string, extraReplace map[string]string) error {
	if err := os.MkdirAll(dir, 0o755); err != nil {
		return err
	}
	var b strings.Builder
	fmt.Fprintf(&b, "module %s\n\ngo 1.23.0\n\nrequire (\n\tverif v0.0.0\n\tgithub.com/benoitkugler/gomacro v0.0.0\n\tgolang.org/x/tools v0.31.0\n", Module)
	var ks []string
	for k := range extraReplace {
		ks = append(ks, k)
	}
	sort.Strings(ks)
	for _, k := range ks {
		fmt.Fprintf(&b, "\t%s v0.0.0\n", k)
	}
	b.WriteString(")\n\nrequire (\n\tgolang.org/x/mod v0.24.0 // indirect\n\tgolang.org/x/sync v0.12.0 // indirect\n)\n\n")
	fmt.Fprintf(&b, "replace verif => %s\n\nreplace github.com/benoitkugler/gomacro => %s\n", verifDir, repoCopy)
	for _, k := range ks {
		fmt.Fprintf(&b, "\nreplace %s => %s\n", k, extraReplace[k])
	}
	if err := os.WriteFile(filepath.Join(dir, "go.mod"), []byte(b.String()), 0o644); err != nil {
		return err
	}
	sum, err := os.ReadFile(filepath.Join(verifDir, "go.sum"))
	if err != nil {
		return err
	}
	return os.WriteFile(filepath.Join(dir, "go.sum"), sum, 0o644)
}

// WriteProgram materialises p under dir/<p.Name> (without its own go.mod).
func WriteProgram(dir string, p *synth.Program) error {
	for _, name := range p.SortedFiles() {
		if name == "go.mod" {
			continue
		}
		path := filepath.Join(dir, p.Name, name)
		if err := os.MkdirAll(filepath.Dir(path), 0o755); err != nil {
			return err
		}
		if err := os.WriteFile(path, []byte(p.Files[name]), 0o644); err != nil {
			return err
		}
	}
	return nil
}

// LoadCorpus reads a hand-written program from corpusDir/<name>: every file
// below it, verif-files.txt (analysed files) and verif-tables.json (the
// oracle tables a synthesised program would carry). Import paths written as
// example.com/vs/<name> are kept as they are.
func LoadCorpus(corpusDir, name string) (*synth.Program, error) {
	root := filepath.Join(corpusDir, name)
	p := &synth.Program{Name: name, Module: Module + "/" + name, Files: map[string]string{}, RootPkg: Module + "/" + name}
	err := filepath.Walk(root, func(path string, info os.FileInfo, err error) error {
		if err != nil || info.IsDir() {
			return err
		}
		rel, _ := filepath.Rel(root, path)
		b, err := os.ReadFile(path)
		if err != nil {
			return err
		}
		switch rel {
		case "verif-files.txt":
			p.Analyse = strings.Fields(string(b))
		case "verif-tables.json":
			var t struct {
				Enums  []synth.EnumInfo
				Unions []synth.UnionInfo
				Tables []synth.TableInfo
			}
			if err := json.Unmarshal(b, &t); err != nil {
				return fmt.Errorf("%s: %v", path, err)
			}
			p.Enums, p.Unions, p.Tables = t.Enums, t.Unions, t.Tables
		default:
			p.Files[rel] = string(b)
		}
		return nil
	})
	if err != nil {
		return nil, err
	}
	if len(p.Analyse) == 0 {
		return nil, fmt.Errorf("corpus program %s has no verif-files.txt", name)
	}
	// package name of the root package
	fset := token.NewFileSet()
	f, err := parser.ParseFile(fset, p.Analyse[0], p.Files[p.Analyse[0]], parser.PackageClauseOnly)
	if err != nil {
		return nil, err
	}
	p.RootName = f.Name.Name
	return p, nil
}

// FuncDecls parses Go source and returns its top-level functions.
func FuncDecls(src string) ([]*ast.FuncDecl, *token.FileSet, error) {
	fset := token.NewFileSet()
	f, err := parser.ParseFile(fset, "gen.go", src, 0)
	if err != nil {
		return nil, nil, err
	}
	var out []*ast.FuncDecl
	for _, d := range f.Decls {
		if fd, ok := d.(*ast.FuncDecl); ok {
			out = append(out, fd)
		}
	}
	return out, fset, nil
}

// GoBuild builds pkg of the module in dir.
func GoBuild(dir, out, pkg string, extra ...string) ([]byte, error) {
	args := append([]string{"build", "-trimpath"}, extra...)
	args = append(args, "-o", out, pkg)
	cmd := exec.Command("go", args...)
	cmd.Dir = dir
	return cmd.CombinedOutput()
}
