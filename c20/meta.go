//go:build verif

package main

import (
	"encoding/json"
	"os"
	"path/filepath"

	"verif/kernel"
)

func (c20) Meta(env *kernel.Env) kernel.Meta {
	extra := map[string]any{"saveoutputs_entry_available": saveOutputsAvailable}
	if b, err := os.ReadFile(filepath.Join(filepath.Dir(env.Scratch), "instr-conc.json")); err == nil {
		var rep map[string]any
		if json.Unmarshal(b, &rep) == nil {
			extra["instrumented_sites"] = rep["sites"]
			extra["uninstrumented_sites"] = rep["uninstrumented_sites"]
		}
	}
	return kernel.Meta{
		Rule: "a run = one tool world (each of goimports/dart/prettier/pg_format installed|missing|probe_fails|run_fails, `which` present or not; all 512 worlds visited round-robin) x 1-8 concurrent callers issuing 1-3 FormatFile requests each on one fresh cache (or the real saveOutputs on the package-level cache) x one seeded schedule of the cooperative scheduler (yield before every lock/unlock/wait-group operation/spawn/external command); distinct = distinct hashes of the (goroutine, event) sequence; non-trivial = at least two callers",
		Real: []string{"generator/formatters.go (instrumented copy of the current tree)", "cmd/gomacro.go saveOutputs (instrumented copy)", "tier 3: unmodified generator package with shell stand-ins on PATH"},
		Stub: []string{"sync.Mutex/WaitGroup/Once and the go statement (verifsim cooperative scheduler)", "os/exec (simulated tool world answering probe and run commands)"},
		Assumptions: []string{
			"an external command that names a requested file is a formatter run, any other command on a known tool is a probe",
			"saveOutputs reports a failing run by panicking in the formatting goroutine (current behaviour); returning an error would be accepted as well",
			"when `which` is absent the Go formatter may be treated as absent or be found by other means",
		},
		Extra: extra,
	}
}
