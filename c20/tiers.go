//go:build verif

package main

import (
	"bytes"
	"encoding/json"
	"fmt"
	"os"
	"os/exec"
	"path/filepath"
	"strings"

	"verif/kernel"
)

type freeReport struct {
	Runs       int            `json:"runs"`
	Requests   int            `json:"requests"`
	Violations []freeFinding  `json:"violations"`
	Probes     map[string]int `json:"probes"`
}

type freeFinding struct {
	Clause string `json:"clause"`
	Detail string `json:"detail"`
}

func evidenceDir(env *kernel.Env) string {
	for i, a := range os.Args {
		if strings.HasPrefix(a, "-evidence=") {
			return filepath.Dir(strings.TrimPrefix(a, "-evidence="))
		}
		if a == "-evidence" && i+1 < len(os.Args) {
			return filepath.Dir(os.Args[i+1])
		}
	}
	return filepath.Join(env.VerifDir, "evidence")
}

// ParentPhase runs the two free-running tiers: tier 2 (instrumented copy,
// simulator off, exec stubbed, race detector) and tier 3 (pristine package,
// real processes, race detector). Both are uncontrolled cross-checks.
func (c20) ParentPhase(env *kernel.Env) kernel.PhaseResult {
	res := kernel.PhaseResult{Coverage: map[string]any{}}
	scr := os.Getenv("VERIF_SCR")
	raceNote, _ := os.ReadFile(filepath.Join(scr, "c20-race-note.txt"))
	res.Coverage["race_detector"] = strings.TrimSpace(string(raceNote))
	runs2, runs2b, runs3 := 300, 30, 24
	if env.Tier == "thorough" {
		runs2, runs2b, runs3 = 20000, 400, 500
	}
	type tier struct {
		name, bin, sig string
		runs           int
	}
	for _, t := range []tier{{"tier2_race_stubbed_exec", "c20stub", "generator.Formatters.FormatFile (tier 2: free-running, stubbed exec, -race)", runs2},
		{"tier2b_race_saveoutputs", "c20save", "cmd.saveOutputs (tier 2b: free-running, stubbed exec, -race, one process per batch)", runs2b},
		{"tier3_race_real_processes", "c20real", "generator.Formatters.FormatFile (tier 3: unmodified code, real processes, -race)", runs3}} {
		bin := filepath.Join(scr, "bin", t.bin)
		if _, err := os.Stat(bin); err != nil {
			if t.bin == "c20save" {
				res.Coverage[t.name] = "skipped: saveOutputs entry point not available on this tree or no race detector"
				continue
			}
			kernel.Harnessf("%s binary missing: %v", t.name, err)
		}
		work := filepath.Join(env.Scratch, t.bin+"-work")
		os.MkdirAll(work, 0o755)
		cmd := exec.Command(bin)
		cmd.Dir = work
		cmd.Env = append(os.Environ(), "C20_RACESAVE=1", "GORACE=halt_on_error=1 exitcode=66", fmt.Sprintf("C20_RUNS=%d", t.runs), fmt.Sprintf("C20_SEED=%d", env.Seed), "C20_WORK="+work, "GOMAXPROCS=16")
		var so, se bytes.Buffer
		cmd.Stdout, cmd.Stderr = &so, &se
		err := cmd.Run()
		os.RemoveAll(work)
		report := func(clause, detail string) {
			v := kernel.Violation{Property: "C20", Clause: clause, Signature: t.sig, Detail: detail}
			path := filepath.Join(evidenceDir(env), "replays", fmt.Sprintf("C20-%s-%s.json", t.name, clause))
			os.MkdirAll(filepath.Dir(path), 0o755)
			b, _ := json.MarshalIndent(map[string]any{"violation": v, "command": fmt.Sprintf("GORACE='halt_on_error=1 exitcode=66' C20_RUNS=%d C20_SEED=%d %s", t.runs, env.Seed, t.bin),
				"note": "found by an uncontrolled free-running tier: real goroutine scheduling, replay is probabilistic; the deterministic tier reports the same defect with an exact replay file when its consequences are visible at the synchronisation points"}, "", " ")
			os.WriteFile(path, b, 0o644)
			res.Violations = append(res.Violations, kernel.Found{V: v, File: path, Case: kernel.Case{Index: 1 << 30}})
		}
		if ee, ok := err.(*exec.ExitError); ok && ee.ExitCode() == 66 {
			txt := se.String()
			if len(txt) > 4000 {
				txt = txt[:4000]
			}
			report("data_race", "the race detector reported a data race between concurrent FormatFile callers:\n"+txt)
			res.Coverage[t.name] = "race reported"
			continue
		}
		if err != nil {
			kernel.Harnessf("%s failed: %v\n%s", t.name, err, se.String())
		}
		var rep freeReport
		if jerr := json.Unmarshal(so.Bytes(), &rep); jerr != nil {
			kernel.Harnessf("%s: bad report: %v", t.name, jerr)
		}
		res.Coverage[t.name] = map[string]any{"runs": rep.Runs, "requests": rep.Requests, "commands_seen": rep.Probes}
		res.Evals += int64(rep.Runs)
		for _, f := range rep.Violations {
			report(f.Clause, f.Detail)
			break
		}
	}
	return res
}
