# sourced by ./check for C20: instrument the copy, place driver + kernel inside it,
# build the deterministic driver and the two free-running tiers
cp -a "$SCR/repo" "$SCR/repo-pristine"
rm -rf "$SCR/repo-pristine/verifsim"
instrument conc
mkdir -p "$SCR/repo/vkernel"
cp "$VERIF"/kernel/*.go "$SCR/repo/vkernel/"
for f in "$VERIF"/c20/*.go; do
	sed 's#"verif/kernel"#kernel "github.com/benoitkugler/gomacro/vkernel"#' "$f" > "$SCR/repo/cmd/verif_$(basename "$f")"
done
c20build() { (cd "$SCR/repo" && go build -trimpath "$@" -o "$SCR/bin/c20" ./cmd) >"$SCR/build.log" 2>&1; }
if ! c20build -tags "verif vsave"; then
	cp "$SCR/build.log" "$SCR/build-vsave.log"
	if ! c20build -tags verif; then
		cat "$SCR/build-vsave.log" "$SCR/build.log" >&2
		fail "build of the C20 driver inside the instrumented copy failed"
	fi
	echo "note: saveOutputs entry point not available on this tree (see build log); driving FormatFile only" >&2
fi
# tier 2b: the same driver built with the race detector drives the real saveOutputs free-running
(cd "$SCR/repo" && CGO_ENABLED=1 go build -trimpath -race -tags "verif vsave" -o "$SCR/bin/c20save" ./cmd) >"$SCR/build-save.log" 2>&1 || rm -f "$SCR/bin/c20save"
# free-running tiers, with the race detector when cgo is available
sed "s#=> /repo#=> $SCR/repo-pristine#" "$VERIF/go.mod" > "$SCR/pristine.mod"
cp "$VERIF/go.sum" "$SCR/pristine.sum"
freebuild() { # freebuild <modfile> <out> <pkg> <race flag...>
	local mod="$1" out="$2" pkg="$3"; shift 3
	(cd "$VERIF" && CGO_ENABLED=1 go build -trimpath "$@" -modfile="$mod" -o "$out" "$pkg") >"$SCR/build.log" 2>&1
}
if freebuild "$SCR/go.mod" "$SCR/bin/c20stub" ./c20/free/stub -race && freebuild "$SCR/pristine.mod" "$SCR/bin/c20real" ./c20/free/real -race; then
	echo "on (-race, CGO_ENABLED=1)" > "$SCR/c20-race-note.txt"
else
	cp "$SCR/build.log" "$SCR/build-race.log"
	(cd "$VERIF" && CGO_ENABLED=0 go build -trimpath -modfile="$SCR/go.mod" -o "$SCR/bin/c20stub" ./c20/free/stub) >"$SCR/build.log" 2>&1 || { cat "$SCR/build-race.log" "$SCR/build.log" >&2; fail "build of C20 tier 2 failed"; }
	(cd "$VERIF" && CGO_ENABLED=0 go build -trimpath -modfile="$SCR/pristine.mod" -o "$SCR/bin/c20real" ./c20/free/real) >"$SCR/build.log" 2>&1 || { cat "$SCR/build.log" >&2; fail "build of C20 tier 3 failed"; }
	echo "off: the race detector could not be built here ($(head -c 200 "$SCR/build-race.log" | tr '\n' ' ')); tiers 2 and 3 ran without it" > "$SCR/c20-race-note.txt"
fi
BUILD_DONE=1
