# sourced by ./check for C20: instrument the copy, place driver + kernel inside it
instrument conc
mkdir -p "$SCR/repo/vkernel"
cp "$VERIF"/kernel/*.go "$SCR/repo/vkernel/"
for f in "$VERIF"/c20/*.go; do
	sed 's#"verif/kernel"#kernel "github.com/benoitkugler/gomacro/vkernel"#' "$f" > "$SCR/repo/cmd/verif_$(basename "$f")"
done
c20build() { (cd "$SCR/repo" && go build -trimpath "$@" -o "$SCR/bin/c20" ./cmd) >"$SCR/build.log" 2>&1; }
if ! c20build -tags "verif vsave"; then
	cp "$SCR/build.log" "$SCR/build-vsave.log"
	if ! c20build -tags verif; then
		cat "$SCR/build-vsave.log" "$SCR/build.log" >&2
		fail "build of the C20 driver inside the instrumented copy failed"
	fi
	echo "note: saveOutputs entry point not available on this tree (see build log); driving FormatFile only" >&2
fi
BUILD_DONE=1
