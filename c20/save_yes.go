//go:build verif && vsave

package main

import (
	"path/filepath"

	"github.com/benoitkugler/gomacro/generator"
)

const saveOutputsAvailable = true

// callSaveOutputs drives the real cmd.saveOutputs (one goroutine per output
// file on the package-level cache) with a fresh cache.
func callSaveOutputs(dir string, callers [][]request) error {
	fmts = generator.Formatters{}
	var outs []outputFile
	for _, c := range callers {
		for _, r := range c {
			outs = append(outs, outputFile{format: generator.Format(r.Format), file: filepath.Join(dir, r.File), content: "// " + r.File + "\n"})
		}
	}
	return saveOutputs(dir, dir, nil, outs)
}
