// stub is C20 tier 2: the instrumented copy of generator/formatters.go with
// the simulator switched off (verifsim primitives fall back to real sync),
// real goroutines released together, os/exec answered by an in-process stub,
// the whole thing under the race detector. Uncontrolled: what it finds does
// not replay exactly.
package main

import (
	"runtime"
	"encoding/json"
	"fmt"
	"io"
	"log"
	"os"
	"os/exec"
	"strings"
	"sync"
	"time"

	"github.com/benoitkugler/gomacro/generator"
	"github.com/benoitkugler/gomacro/verifsim"

	"verif/c20/free"
	"verif/kernel"
)

func main() {
	log.SetOutput(io.Discard)
	runs, seed := 200, uint64(1)
	fmt.Sscan(os.Getenv("C20_RUNS"), &runs)
	fmt.Sscan(os.Getenv("C20_SEED"), &seed)
	rep := free.Report{Probes: map[string]int{}}
	exitErr := exec.Command("/bin/sh", "-c", "exit 2").Run()
	baseline := runtime.NumGoroutine()
	for i := 0; i < runs && len(rep.Violations) < 3; i++ {
		free.Quiesce(baseline)
		r := kernel.NewRand(kernel.Mix(seed, "C20-tier2", i))
		w := free.WorldOf(i % 512)
		n := r.Range(2, 8)
		var reqs []free.Request
		files := map[string]bool{}
		focus := r.Range(1, 4)
		for k := 0; k < n; k++ {
			f := r.Intn(5)
			if r.Chance(3, 4) {
				f = focus
			}
			name := fmt.Sprintf("out%d%s", k, free.Ext(f))
			reqs = append(reqs, free.Request{Format: f, File: name})
			files[name] = true
		}
		var mu sync.Mutex
		var events []free.Event
		verifsim.ExecHook = func(name string, args []string, dir string) ([]byte, error) {
			tool, kind, file := free.Classify(files, name, args)
			mu.Lock()
			events = append(events, free.Event{Cmd: strings.Join(append([]string{name}, args...), " "), Tool: tool, Kind: kind, File: file})
			mu.Unlock()
			time.Sleep(20 * time.Microsecond) // a process takes time: widen the window
			base := name
			if base == "which" {
				if !w.Which {
					return nil, &exec.Error{Name: name, Err: exec.ErrNotFound}
				}
				if tool == "" || w.State[tool] == free.Missing || w.State[tool] == free.ProbeFails {
					return nil, exitErr
				}
				return nil, nil
			}
			if tool == "" || w.State[tool] == free.Missing {
				return nil, &exec.Error{Name: name, Err: exec.ErrNotFound}
			}
			st := w.State[tool]
			if kind == "probe" && st == free.ProbeFails {
				return nil, exitErr
			}
			if kind == "run" && (st == free.RunFails || st == free.ProbeFails) {
				return nil, exitErr
			}
			return nil, nil
		}
		// a tree that locates its tools with exec.LookPath sees the same world
		verifsim.LookPathHook = func(file string) (string, error) {
			tool, _, _ := free.Classify(files, file, nil)
			mu.Lock()
			events = append(events, free.Event{Cmd: "LookPath " + file, Tool: tool, Kind: "probe"})
			mu.Unlock()
			if tool == "" || w.State[tool] == free.Missing || (tool == "goimports" && w.State[tool] == free.ProbeFails) {
				return "", &exec.Error{Name: file, Err: exec.ErrNotFound}
			}
			return "/usr/bin/" + file, nil
		}
		cache := &generator.Formatters{}
		results := make([]free.Result, len(reqs))
		var wg sync.WaitGroup
		start := make(chan struct{})
		for k := range reqs {
			wg.Add(1)
			go func(k int) {
				defer wg.Done()
				<-start
				err := cache.FormatFile(generator.Format(reqs[k].Format), reqs[k].File)
				results[k] = free.Result{Req: reqs[k]}
				if err != nil {
					results[k].HasErr, results[k].Err = true, err.Error()
				}
			}(k)
		}
		close(start)
		wg.Wait()
		free.Quiesce(baseline)
		mu.Lock()
		seen := append([]free.Event(nil), events...)
		mu.Unlock()
		rep.Runs++
		rep.Requests += len(reqs)
		if clause, detail := free.Judge(w, seen, results); clause != "" {
			hist, _ := json.Marshal(seen)
			rep.Violations = append(rep.Violations, free.Finding{Clause: clause, Detail: fmt.Sprintf("%s\nworld %s\nrequests %v\nexec history %s", detail, w, reqs, hist)})
		}
		for _, e := range seen {
			rep.Probes[e.Kind+"_"+e.Tool]++
		}
	}
	json.NewEncoder(os.Stdout).Encode(rep)
}
