// real is C20 tier 3: the unmodified generator package, real processes.
// Stand-in scripts for which / goimports / dart / npx / pg_format are the
// process's whole PATH; each appends one line per invocation to a log and
// exits according to the tool world. Built with the race detector.
package main

import (
	"runtime"
	"encoding/json"
	"fmt"
	"io"
	"log"
	"os"
	"path/filepath"
	"strings"
	"sync"

	"github.com/benoitkugler/gomacro/generator"

	"verif/c20/free"
	"verif/kernel"
)

// chatty tools print a notice on their standard error in every invocation
var chatty bool

func script(logFile string, body string) string {
	noise := ""
	if chatty {
		noise = "echo \"notice: a new version is available\" >&2\n"
	}
	return "#!/bin/sh\necho \"$0 $*\" >> " + logFile + "\n" + noise + body + "\n"
}

// failBody is how a failing formatter run ends: a plain non-zero exit, death by
// signal, or (start) a script whose interpreter does not exist, so that the
// file is executable but cannot be started.
func failBody(mode string) string {
	switch mode {
	case "signal":
		return "kill -9 $$"
	}
	return "exit 2"
}

var failMode = "exit"

func writeWorld(dir, logFile string, w free.World) {
	free.Unstartable = map[string]bool{}
	os.RemoveAll(dir)
	os.MkdirAll(dir, 0o755)
	put := func(name, body string) {
		os.WriteFile(filepath.Join(dir, name), []byte(script(logFile, body)), 0o755)
	}
	if w.Which {
		st := w.State["goimports"]
		ok := "exit 1"
		if st == free.Installed || st == free.RunFails {
			ok = "exit 0"
		}
		put("which", "case \"$1\" in goimports) "+ok+";; esac\nexit 1")
	}
	// a tool is a file on PATH unless missing
	for _, t := range free.Tools {
		st := w.State[t]
		if st == free.Missing {
			continue
		}
		name := t
		if t == "prettier" {
			name = "npx"
		}
		probeOK, runOK := st != free.ProbeFails, st == free.Installed
		// a command naming an existing file is a run, anything else a probe
		// (--help, -v, --version, -h ...: whatever the tree uses to see if the tool works)
		isRun := "run=0; for a in \"$@\"; do [ -f \"$a\" ] && run=1; done\n"
		var body string
		switch t {
		case "goimports":
			if st == free.ProbeFails {
				continue // probe fails for goimports == it is not found
			}
			if !runOK && failMode == "start" {
				free.Unstartable[t] = true
				// executable, found by `which`, but its interpreter does not exist
				os.WriteFile(filepath.Join(dir, name), []byte("#!/nonexistent/interpreter\n"), 0o755)
				continue
			}
			body = isRun + "[ $run = 0 ] && exit 0\n" + runEnd(runOK)
		default:
			body = isRun + fmt.Sprintf("[ $run = 0 ] && exit %d\n", b2i(!probeOK)) + runEnd(runOK)
		}
		put(name, body)
	}
}

func runEnd(ok bool) string {
	if ok {
		return "exit 0"
	}
	return failBody(failMode)
}

func b2i(b bool) int {
	if b {
		return 1
	}
	return 0
}

func main() {
	log.SetOutput(io.Discard)
	runs, seed := 20, uint64(1)
	fmt.Sscan(os.Getenv("C20_RUNS"), &runs)
	fmt.Sscan(os.Getenv("C20_SEED"), &seed)
	work := os.Getenv("C20_WORK")
	if work == "" {
		fmt.Fprintln(os.Stderr, "C20_WORK not set")
		os.Exit(2)
	}
	rep := free.Report{Probes: map[string]int{}}
	bin := filepath.Join(work, "bin")
	logFile := filepath.Join(work, "exec.log")
	baseline := runtime.NumGoroutine()
	for i := 0; i < runs && len(rep.Violations) < 3; i++ {
		free.Quiesce(baseline)
		r := kernel.NewRand(kernel.Mix(seed, "C20-tier3", i))
		w := free.WorldOf(r.Intn(512))
		failMode = kernel.Pick(r, []string{"exit", "exit", "signal", "start"})
		chatty = r.Chance(1, 3)
		writeWorld(bin, logFile, w)
		os.Remove(logFile)
		os.Setenv("PATH", bin)
		n := r.Range(2, 6)
		var reqs []free.Request
		files := map[string]bool{}
		focus := r.Range(1, 4)
		for k := 0; k < n; k++ {
			f := r.Intn(5)
			if r.Chance(3, 4) {
				f = focus
			}
			name := fmt.Sprintf("out%d%s", k, free.Ext(f))
			os.WriteFile(filepath.Join(work, name), []byte("content\n"), 0o644)
			reqs = append(reqs, free.Request{Format: f, File: name})
			files[name] = true
		}
		cache := &generator.Formatters{}
		results := make([]free.Result, len(reqs))
		var wg sync.WaitGroup
		start := make(chan struct{})
		for k := range reqs {
			wg.Add(1)
			go func(k int) {
				defer wg.Done()
				<-start
				err := cache.FormatFile(generator.Format(reqs[k].Format), filepath.Join(work, reqs[k].File))
				results[k] = free.Result{Req: reqs[k]}
				if err != nil {
					results[k].HasErr, results[k].Err = true, err.Error()
				}
			}(k)
		}
		close(start)
		wg.Wait()
		free.Quiesce(baseline)
		var events []free.Event
		b, _ := os.ReadFile(logFile)
		for _, line := range strings.Split(strings.TrimSpace(string(b)), "\n") {
			if line == "" {
				continue
			}
			fs := strings.Fields(line)
			tool, kind, file := free.Classify(files, fs[0], fs[1:])
			events = append(events, free.Event{Cmd: line, Tool: tool, Kind: kind, File: file})
		}
		rep.Runs++
		rep.Requests += len(reqs)
		if clause, detail := free.Judge(w, events, results); clause != "" {
			hist, _ := json.Marshal(events)
			rep.Violations = append(rep.Violations, free.Finding{Clause: clause, Detail: fmt.Sprintf("%s\nworld %s\nrequests %v\nexec log %s", detail, w, reqs, hist)})
		}
		for _, e := range events {
			rep.Probes[e.Kind+"_"+e.Tool]++
		}
	}
	json.NewEncoder(os.Stdout).Encode(rep)
}
