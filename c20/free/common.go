// Package free holds what the two free-running C20 tiers share: the tool
// world description, the classification of external commands and the history
// oracle (the same rules as the deterministic tier, for the FormatFile entry).
package free

import (
	"runtime"
	"time"
	"fmt"
	"path/filepath"
	"sort"
	"strings"
)

const (
	Installed  = "installed"
	Missing    = "missing"
	ProbeFails = "probe_fails"
	RunFails   = "run_fails"
)

var Tools = []string{"goimports", "dart", "prettier", "pg_format"}
var States = []string{Installed, Missing, ProbeFails, RunFails}

type Request struct {
	Format int // generator.Format value
	File   string
}

type World struct {
	State map[string]string
	Which bool
}

type Event struct {
	Cmd  string
	Tool string
	Kind string // probe | run
	File string
}

type Result struct {
	Req    Request
	HasErr bool
	Err    string
}

func ToolFor(format int) string {
	switch format {
	case 1:
		return "goimports"
	case 2:
		return "dart"
	case 3:
		return "prettier"
	case 4:
		return "pg_format"
	}
	return ""
}

func Ext(format int) string { return [...]string{".txt", ".go", ".dart", ".ts", ".sql"}[format%5] }

// Classify maps a command line to (tool, probe|run, file).
func Classify(files map[string]bool, name string, args []string) (tool, kind, file string) {
	for _, a := range args {
		if files[filepath.Base(a)] {
			file = filepath.Base(a)
		}
	}
	kind = "probe"
	if file != "" {
		kind = "run"
	}
	switch filepath.Base(name) {
	case "which", "command", "type", "whereis":
		for _, a := range args {
			for _, t := range Tools {
				if strings.Contains(a, t) {
					tool = t
				}
			}
		}
		return tool, "probe", file
	case "goimports", "gofmt":
		tool = "goimports"
	case "dart", "dartfmt":
		tool = "dart"
	case "npx", "prettier", "npm", "node":
		tool = "prettier"
	case "pg_format":
		tool = "pg_format"
	}
	return tool, kind, file
}

// Judge applies the history oracle; it returns "" when everything holds.
// Unstartable names the tools whose failing run cannot even be started in the
// current world (an executable whose interpreter does not exist): such a run
// leaves no trace in the exec log, the request must still report an error.
var Unstartable = map[string]bool{}

func Judge(w World, events []Event, results []Result) (clause, detail string) {
	probes := map[string]int{}
	for _, e := range events {
		if e.Kind == "probe" && e.Tool != "" {
			probes[e.Tool]++
		}
	}
	for _, t := range Tools {
		if probes[t] > 1 {
			return "tool_probed_more_than_once", fmt.Sprintf("%s was probed %d times on one cache", t, probes[t])
		}
	}
	for _, r := range results {
		t := ToolFor(r.Req.Format)
		right, any := 0, 0
		for _, e := range events {
			if e.Kind == "run" && e.File == r.Req.File {
				any++
				if e.Tool == t {
					right++
				}
			}
		}
		usable := t != "" && (w.State[t] == Installed || w.State[t] == RunFails)
		if t == "goimports" && !w.Which && any == 0 && !r.HasErr {
			// the Go formatter is located through `which` on the unchanged tree:
			// without `which` it counts as absent (nothing runs, no error). A tree
			// that locates it another way finds it: then it is judged as usable.
			usable = false
		}
		switch {
		case t == "":
			if any != 0 || r.HasErr {
				return "noformat_not_noop", fmt.Sprintf("request %v: %d runs, err=%q", r.Req, any, r.Err)
			}
		case !usable:
			if any != 0 {
				return "absent_tool_was_run", fmt.Sprintf("request %v: tool %s is %s but %d run(s) touched the file", r.Req, t, w.State[t], any)
			}
			if r.HasErr {
				return "absent_tool_request_fails", fmt.Sprintf("request %v: tool %s is %s, got error %q", r.Req, t, w.State[t], r.Err)
			}
		case w.State[t] == RunFails && Unstartable[t]:
			if any != 0 {
				return "formatter_not_run_exactly_once", fmt.Sprintf("request %v: tool %s cannot be started, yet %d run(s) are logged", r.Req, t, any)
			}
			if !r.HasErr {
				return "failing_run_not_reported", fmt.Sprintf("request %v: the formatter could not be started but FormatFile returned nil", r.Req)
			}
		default:
			if right != 1 || any != 1 {
				return "formatter_not_run_exactly_once", fmt.Sprintf("request %v: tool %s is %s: %d run(s) by it, %d by any tool", r.Req, t, w.State[t], right, any)
			}
			if w.State[t] == RunFails && !r.HasErr {
				return "failing_run_not_reported", fmt.Sprintf("request %v: the run failed but FormatFile returned nil", r.Req)
			}
			if w.State[t] != RunFails && r.HasErr {
				return "successful_run_reported_as_error", fmt.Sprintf("request %v: %q", r.Req, r.Err)
			}
		}
	}
	return "", ""
}

func (w World) String() string {
	var ks []string
	for k, v := range w.State {
		ks = append(ks, k+"="+v)
	}
	sort.Strings(ks)
	return fmt.Sprintf("%v which=%v", ks, w.Which)
}

// WorldOf decodes configuration number cfg (0..511).
func WorldOf(cfg int) World {
	w := World{State: map[string]string{}}
	for _, t := range Tools {
		w.State[t] = States[cfg%4]
		cfg /= 4
	}
	w.Which = cfg%2 == 0
	return w
}

// Report is what a free-running tier prints.
type Report struct {
	Runs       int            `json:"runs"`
	Requests   int            `json:"requests"`
	Violations []Finding      `json:"violations"`
	Probes     map[string]int `json:"probes"`
}

type Finding struct {
	Clause string `json:"clause"`
	Detail string `json:"detail"`
}

// Quiesce waits (up to half a second) until the goroutines a finished batch
// left behind - a tree may probe tools in the background, and such probes may
// outlive the requests - are gone, so that the next batch starts from a quiet
// process and nothing of the old batch is attributed to the new one.
func Quiesce(baseline int) {
	for i := 0; i < 500 && runtime.NumGoroutine() > baseline; i++ {
		time.Sleep(time.Millisecond)
	}
}
