//go:build verif

package main

import (
	"bytes"
	"runtime"
	"encoding/json"
	"fmt"
	"os"
	"os/exec"
	"path/filepath"
	"strconv"
	"sync"
	"time"

	"github.com/benoitkugler/gomacro/verifsim"

	"verif/kernel"
)

// raceSave is C20 tier 2b: the real saveOutputs (one goroutine per output
// file on the package-level cache) free-running under the race detector, with
// os/exec answered by a stub. The simulator is off, so the verifsim primitives
// are the real sync ones. Uncontrolled; a race report ends the process with
// exit code 66 (GORACE).
func quiesce(baseline int) {
	for i := 0; i < 500 && runtime.NumGoroutine() > baseline; i++ {
		time.Sleep(time.Millisecond)
	}
}

func raceSave() {
	quiet()
	runs, _ := strconv.Atoi(os.Getenv("C20_RUNS"))
	seed, _ := strconv.ParseUint(os.Getenv("C20_SEED"), 10, 64)
	work := os.Getenv("C20_WORK")
	if runs == 0 {
		runs = 100
	}
	exitErr := exec.Command("/bin/sh", "-c", "exit 2").Run()
	var mu sync.Mutex
	done := 0
	// one batch per process: the cache under test is a package-level variable,
	// and a tree may leave probe goroutines behind that still write to it after
	// saveOutputs has returned - resetting it for a second batch in the same
	// process would be a race of the harness with those goroutines
	if os.Getenv("C20_ONE") == "" {
		for i := 0; i < runs; i++ {
			cmd := exec.Command(os.Args[0])
			cmd.Env = append(os.Environ(), fmt.Sprintf("C20_ONE=%d", i))
			var se bytes.Buffer
			cmd.Stderr = &se
			if err := cmd.Run(); err != nil {
				os.Stderr.Write(se.Bytes())
				if ee, ok := err.(*exec.ExitError); ok {
					os.Exit(ee.ExitCode())
				}
				os.Exit(2)
			}
		}
		json.NewEncoder(kernel.Out).Encode(map[string]any{"runs": runs})
		return
	}
	first, _ := strconv.Atoi(os.Getenv("C20_ONE"))
	baseline := runtime.NumGoroutine()
	for i := first; i < first+1; i++ {
		r := kernel.NewRand(kernel.Mix(seed, "C20-racesave", i))
		// (no failing run here: saveOutputs reports one by panicking in its
		// goroutine, which would end this free-running process)
		failing := false
		verifsim.ExecHook = func(name string, args []string, dir string) ([]byte, error) {
			mu.Lock()
			mu.Unlock()
			time.Sleep(10 * time.Microsecond)
			if failing && len(args) > 1 && name != "which" && args[0] != "format" {
				// (runs name a file after an option; `dart format f` is a run too)
				return nil, exitErr
			}
			if failing && name == "dart" && len(args) == 2 && args[1] != "--help" {
				return nil, exitErr
			}
			return nil, nil
		}
		n := r.Range(2, 6)
		var callers [][]request
		for k := 0; k < n; k++ {
			f := r.Range(1, 4)
			callers = append(callers, []request{{Format: f, File: fmt.Sprintf("o%d%s", k, ext(f))}})
		}
		dir := filepath.Join(work, fmt.Sprintf("rs-%d", i))
		os.MkdirAll(dir, 0o755)
		func() {
			defer func() { recover() }() // a failing run is reported by a panic
			callSaveOutputs(dir, callers)
		}()
		// goroutines that panicked or are still running are left behind; give
		// the others a moment so that the race detector sees their accesses
		time.Sleep(200 * time.Microsecond)
		os.RemoveAll(dir)
		done++
	}
	quiesce(baseline) // let background goroutines finish under the race detector's eyes
}
