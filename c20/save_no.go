//go:build verif && !vsave

package main

// The current tree's cmd package no longer has the saveOutputs / outputFile /
// fmts shape this entry point was written for; only FormatFile is driven.
const saveOutputsAvailable = false

func callSaveOutputs(dir string, callers [][]request) error {
	panic("saveOutputs entry not available")
}
