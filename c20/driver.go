//go:build verif

// C20 - formatter probing is race-free, cached and optional.
//
// This file is compiled *inside* the instrumented scratch copy of the
// repository, as part of package main of cmd/ (so that the real saveOutputs
// and the package-level cache are reachable), with verif/kernel copied next to
// it. Tier 1: deterministic cooperative simulation of concurrent FormatFile
// callers over a simulated tool world. Tiers 2 and 3 are in tiers.go.
package main

import (
	"encoding/json"
	"errors"
	"fmt"
	"io"
	"io/fs"
	"log"
	"os"
	"os/exec"
	"path/filepath"
	"sort"
	"strings"
	"syscall"
	"time"

	"github.com/benoitkugler/gomacro/generator"
	"github.com/benoitkugler/gomacro/verifsim"

	"verif/kernel"
)

const (
	installed  = "installed"
	missing    = "missing"
	probeFails = "probe_fails"
	runFails   = "run_fails"
)

var toolNames = []string{"goimports", "dart", "prettier", "pg_format"}
var states = []string{installed, missing, probeFails, runFails}

type request struct {
	Format int    `json:"format"` // generator.Format value; envChange = not a request: the caller changes $PATH
	File   string `json:"file"`
}

// envChange marks a step of a caller that is not a format request: the
// process environment changes ($PATH gets one more, empty, directory) while
// the cache is in use. The cache's answers are per cache, not per environment.
const envChange = -1

type params struct {
	World     map[string]string `json:"world"`
	Which     bool              `json:"which_present"`
	Entry     string            `json:"entry"` // formatfile | saveoutputs
	Callers   [][]request       `json:"callers"`
	SwitchDen int               `json:"switch_den"` // preempt with probability 1/SwitchDen at each yield
	// FailMode says how a failing formatter run fails: "exit" = the process
	// runs and exits non-zero (*exec.ExitError), "signal" = it is killed by a
	// signal (*exec.ExitError with exit code -1), "start" = it cannot be
	// started at all (*exec.Error / *fs.PathError: removed after the probe,
	// bad interpreter, permission)
	FailMode string `json:"fail_mode"`
	// SlowMs is the simulated duration of every command of a tool, in ms
	SlowMs map[string]int `json:"slow_ms,omitempty"`
	// Chatty tools print notices on their standard error in every command,
	// whether it succeeds or not (npm notices, deprecation warnings)
	Chatty map[string]bool `json:"chatty,omitempty"`
	// Stray: an executable goimports lies about outside $PATH, where `go install`
	// leaves it ($GOBIN, $GOPATH/bin or ~/go/bin): it does not make the tool present
	Stray string `json:"stray_goimports,omitempty"`
	// EnvSensitive: the tools are scripts started through `env`: a command given
	// an environment of its own that lacks PATH cannot start (exit 127)
	EnvSensitive bool `json:"env_sensitive,omitempty"`
}

type c20 struct{}

func (c20) ID() string { return "C20" }

func toolFor(format int) string {
	switch generator.Format(format) {
	case generator.Go:
		return "goimports"
	case generator.Dart:
		return "dart"
	case generator.TypeScript:
		return "prettier"
	case generator.Psql:
		return "pg_format"
	}
	return ""
}

func ext(format int) string {
	return [...]string{".txt", ".go", ".dart", ".ts", ".sql"}[format%5]
}

func (c20) Runs(env *kernel.Env) int {
	if env.Tier == "thorough" {
		return 0 // until the budget ends
	}
	return 24000
}

func (c20) Generate(env *kernel.Env, r *kernel.Rand, index int) any {
	p := params{World: map[string]string{}}
	// every world configuration is visited: index selects it round-robin
	// (4^4 states x which present/absent = 512), the rest is random.
	cfg := index % 512
	for _, t := range toolNames {
		p.World[t] = states[cfg%4]
		cfg /= 4
	}
	p.Which = cfg%2 == 0
	p.Entry = "formatfile"
	if saveOutputsAvailable && r.Chance(1, 4) {
		p.Entry = "saveoutputs"
	}
	n := r.Range(1, 8)
	if r.Chance(1, 3) {
		n = r.Range(2, 3)
	}
	p.SwitchDen = kernel.Pick(r, []int{1, 1, 2, 3, 6})
	p.FailMode = kernel.Pick(r, []string{"exit", "exit", "start", "signal"})
	// simulated durations: all below the few seconds a sensible per-command
	// timeout would allow, but adding up across tools
	p.SlowMs = map[string]int{}
	for _, t := range toolNames {
		p.SlowMs[t] = kernel.Pick(r, []int{0, 0, 1, 50, 2000, 4000})
	}
	// swarm: some runs hammer one format (maximal contention on one cache slot)
	focus := -1
	if r.Chance(1, 2) {
		focus = r.Range(1, 4)
	}
	k := 0
	lastName, lastFormat := "", 0
	for i := 0; i < n; i++ {
		m := r.Range(1, 3)
		if p.Entry == "saveoutputs" {
			m = 1
		}
		var reqs []request
		for j := 0; j < m; j++ {
			f := r.Intn(5)
			if focus >= 0 && r.Chance(3, 4) {
				f = focus
			}
			// file names are arbitrary: spaces, dashes and non-ASCII letters are legal
			stem := kernel.Pick(r, []string{"out", "out", "out", "my out", "gen api", "été", "a-b", "x y z"})
			name := fmt.Sprintf("%s%d", stem, k)
			if lastName != "" && r.Chance(1, 6) {
				// two outputs whose paths differ by letter case only are two files
				f, name = lastFormat, strings.ToUpper(lastName)
			}
			reqs = append(reqs, request{Format: f, File: name + ext(f)})
			lastName, lastFormat = name, f
			k++
		}
		p.Callers = append(p.Callers, reqs)
	}
	if r.Chance(1, 5) {
		p.Stray = kernel.Pick(r, []string{"gobin", "gopath", "home"})
	}
	p.EnvSensitive = r.Chance(1, 3)
	p.Chatty = map[string]bool{}
	for _, t := range toolNames {
		if r.Chance(1, 4) {
			p.Chatty[t] = true
		}
	}
	if p.Entry == "formatfile" && r.Chance(1, 4) {
		ci := r.Intn(len(p.Callers))
		at := r.Range(0, len(p.Callers[ci]))
		c := append([]request(nil), p.Callers[ci][:at]...)
		c = append(c, request{Format: envChange, File: fmt.Sprintf("extra-bin-%d", r.Intn(100))})
		p.Callers[ci] = append(c, p.Callers[ci][at:]...)
	}
	// a second batch: some requests name a file that was already submitted,
	// with the same generated content (every request is formatted again)
	if p.Entry == "formatfile" && r.Chance(1, 3) {
		var all []request
		for _, c := range p.Callers {
			for _, q := range c {
				if q.Format != envChange {
					all = append(all, q)
				}
			}
		}
		for i := r.Range(1, 2); i > 0 && len(all) > 0; i-- {
			ci := r.Intn(len(p.Callers))
			p.Callers[ci] = append(p.Callers[ci], kernel.Pick(r, all))
		}
	}
	return p
}

type execEvent struct {
	G     int    `json:"g"`
	Cmd   string `json:"cmd"`
	Tool  string `json:"tool"`
	Kind  string `json:"kind"` // probe | run
	File  string `json:"file,omitempty"`
	Cache int    `json:"-"`
}

type reqResult struct {
	Req      request
	Returned bool
	Err      string
	HasErr   bool
}

// world answers external commands.
type world struct {
	p      *params
	files  map[string]bool // requested files (base names)
	events []execEvent
	// formatted counts successful formatter runs per file
	formatted map[string]int
	out       *kernel.Outcome
	outDir    string
}

func (w *world) classify(name string, args []string) (tool, kind, file string) {
	// a command wrapped in a shell or in env is the command it wraps:
	// sh -c "command -v goimports", env goimports -w f.go, ...
	switch filepath.Base(name) {
	case "sh", "bash", "dash", "env":
		var words []string
		for _, a := range args {
			if a == "-c" || strings.HasPrefix(a, "-") && len(words) == 0 {
				continue
			}
			words = append(words, strings.Fields(a)...)
		}
		for len(words) > 0 && strings.Contains(words[0], "=") {
			words = words[1:] // VAR=value prefixes
		}
		if len(words) > 0 {
			tool, kind, file = w.classify(words[0], words[1:])
			if kind == "locate" && words[0] != "which" && words[0] != "whereis" {
				kind = "locate-builtin" // command -v, type, hash: part of the shell
			}
			return tool, kind, file
		}
	}
	all := append([]string{name}, args...)
	for _, a := range all[1:] {
		if w.files[filepath.Base(a)] {
			file = filepath.Base(a)
		}
	}
	kind = "probe"
	if file != "" {
		kind = "run"
	}
	switch filepath.Base(name) {
	case "which", "command", "type", "whereis", "hash":
		for _, a := range args {
			for _, t := range toolNames {
				if strings.Contains(a, t) {
					tool = t
				}
			}
		}
		return tool, "locate", file
	case "goimports", "gofmt":
		tool = "goimports"
	case "dart", "dartfmt":
		tool = "dart"
	case "npx", "prettier", "npm", "node":
		tool = "prettier"
	case "pg_format":
		tool = "pg_format"
	}
	return tool, kind, file
}

var cachedExitErr error

// realExitError returns a genuine *exec.ExitError (obtained once from a real
// `sh -c "exit 2"`), so that code inspecting the error type sees what a
// failing formatter process produces.
func realExitError() error {
	if cachedExitErr == nil {
		cachedExitErr = exec.Command("/bin/sh", "-c", "exit 2").Run()
		if cachedExitErr == nil {
			cachedExitErr = exitErr{2}
		}
	}
	return cachedExitErr
}

var cachedSignalErr error

// realSignalError returns the genuine error of a process killed by a signal
// (exit code -1 in its ProcessState).
func realSignalError() error {
	if cachedSignalErr == nil {
		cachedSignalErr = exec.Command("/bin/sh", "-c", "kill -9 $$").Run()
		if cachedSignalErr == nil {
			cachedSignalErr = exitErr{-1}
		}
	}
	return cachedSignalErr
}

type exitErr struct{ code int }

func (e exitErr) Error() string { return fmt.Sprintf("exit status %d", e.code) }

func (w *world) exec(name string, args []string, dir string) ([]byte, error) {
	tool, kind, file := w.classify(name, args)
	locate, builtin := strings.HasPrefix(kind, "locate"), kind == "locate-builtin"
	if locate {
		kind = "probe"
	}
	w.events = append(w.events, execEvent{G: verifsim.CurrentG(), Cmd: strings.ReplaceAll(strings.Join(append([]string{name}, args...), " "), w.outDir, "<out>"), Tool: tool, Kind: kind, File: file})
	if locate {
		if !w.p.Which && !builtin {
			w.out.Fault("which_not_installed")
			return nil, &exec.Error{Name: name, Err: exec.ErrNotFound}
		}
		if tool == "" {
			return nil, exitErr{1}
		}
		switch w.p.World[tool] {
		case missing, probeFails:
			w.out.Fault("tool_" + w.p.World[tool])
			return nil, exitErr{1}
		}
		return []byte("/usr/bin/" + tool + "\n"), nil
	}
	if tool == "" {
		return nil, &exec.Error{Name: name, Err: exec.ErrNotFound}
	}
	st := w.p.World[tool]
	switch {
	case st == missing:
		w.out.Fault("tool_missing")
		return nil, &exec.Error{Name: name, Err: exec.ErrNotFound}
	case kind == "probe" && st == probeFails:
		w.out.Fault("tool_probe_fails")
		return nil, exitErr{1}
	case kind == "run" && (st == runFails || st == probeFails):
		if w.p.FailMode == "start" {
			w.out.Fault("tool_run_cannot_start")
			return nil, &fs.PathError{Op: "fork/exec", Path: "/usr/bin/" + tool, Err: syscall.ENOENT}
		}
		if w.p.FailMode == "signal" {
			w.out.Fault("tool_run_killed_by_signal")
			return nil, realSignalError()
		}
		w.out.Fault("tool_run_fails")
		return []byte("syntax error"), realExitError()
	}
	if kind == "run" {
		w.formatted[file]++
		for _, a := range args {
			if filepath.Base(a) == file && filepath.IsAbs(a) {
				if code, err := os.ReadFile(a); err == nil {
					os.WriteFile(a, append([]byte("// formatted by "+tool+"\n"), code...), 0o644)
				}
			}
		}
	}
	return nil, nil
}

func (w *world) lookPath(file string) (string, error) {
	tool, _, _ := w.classify(file, nil)
	w.events = append(w.events, execEvent{G: verifsim.CurrentG(), Cmd: "LookPath " + file, Tool: tool, Kind: "probe"})
	if tool == "" || w.p.World[tool] == missing {
		return "", &exec.Error{Name: file, Err: exec.ErrNotFound}
	}
	// a goimports probe through LookPath cannot "fail" other than by absence
	if w.p.World[tool] == probeFails && tool == "goimports" {
		return "", &exec.Error{Name: file, Err: exec.ErrNotFound}
	}
	return "/usr/bin/" + file, nil
}

var devNull *os.File

func quiet() {
	if devNull == nil {
		devNull, _ = os.OpenFile(os.DevNull, os.O_WRONLY, 0)
		os.Stdout = devNull
		log.SetOutput(io.Discard)
	}
}

func (c20) Execute(env *kernel.Env, raw json.RawMessage, ch *kernel.Choices) *kernel.Outcome {
	var p params
	if err := json.Unmarshal(raw, &p); err != nil {
		kernel.Harnessf("params: %v", err)
	}
	quiet()
	out := &kernel.Outcome{}
	savedPath := os.Getenv("PATH")
	defer os.Setenv("PATH", savedPath)
	if p.Stray != "" {
		stray := filepath.Join(env.Scratch, fmt.Sprintf("c20-stray-%d", os.Getpid()))
		var bin, name string
		switch p.Stray {
		case "gobin":
			bin, name = filepath.Join(stray, "gobin"), "GOBIN"
		case "gopath":
			bin, name = filepath.Join(stray, "gopath", "bin"), "GOPATH"
		default:
			bin, name = filepath.Join(stray, "home", "go", "bin"), "HOME"
		}
		os.MkdirAll(bin, 0o755)
		os.WriteFile(filepath.Join(bin, "goimports"), []byte("#!/bin/sh\nexit 0\n"), 0o755)
		val := map[string]string{"GOBIN": bin, "GOPATH": filepath.Join(stray, "gopath"), "HOME": filepath.Join(stray, "home")}[name]
		old, had := os.LookupEnv(name)
		os.Setenv(name, val)
		out.Fault("stray_goimports_outside_path")
		defer func() {
			if had {
				os.Setenv(name, old)
			} else {
				os.Unsetenv(name)
			}
			os.RemoveAll(stray)
		}()
	}
	w := &world{p: &p, files: map[string]bool{}, formatted: map[string]int{}, out: out}
	var results []*reqResult
	for _, c := range p.Callers {
		for _, r := range c {
			if r.Format != envChange {
				w.files[r.File] = true
			}
			results = append(results, &reqResult{Req: r})
		}
	}
	w.outDir = filepath.Join(env.Scratch, fmt.Sprintf("c20-out-%d", os.Getpid()))
	verifsim.ExecHook = w.exec
	verifsim.LookPathHook = w.lookPath
	verifsim.ExecDurationHook = func(name string, args []string) time.Duration {
		tool, _, _ := w.classify(name, args)
		return time.Duration(p.SlowMs[tool]) * time.Millisecond
	}
	if p.EnvSensitive {
		verifsim.ExecEnvHook = func(name string, envv []string) error {
			if envv == nil {
				return nil
			}
			for _, kv := range envv {
				if strings.HasPrefix(kv, "PATH=") {
					return nil
				}
			}
			if tool, _, _ := w.classify(name, nil); tool != "" && p.World[tool] != missing {
				out.Fault("tool_started_without_path")
				return realExitError()
			}
			return nil
		}
		defer func() { verifsim.ExecEnvHook = nil }()
	}
	verifsim.ExecStderrHook = func(name string, args []string) []byte {
		if tool, _, _ := w.classify(name, args); tool != "" && p.Chatty[tool] && p.World[tool] != missing {
			out.Fault("tool_writes_on_stderr")
			return []byte(tool + " notice: a new version is available\n")
		}
		return nil
	}
	defer func() {
		verifsim.ExecHook, verifsim.LookPathHook, verifsim.ExecDurationHook, verifsim.ExecStderrHook = nil, nil, nil, nil
	}()

	var schedule strings.Builder
	outDir := filepath.Join(env.Scratch, fmt.Sprintf("c20-out-%d", os.Getpid()))
	sim := &verifsim.Sim{
		Pick: func(site string, cur int, cands []int) int {
			if cands[0] == cur {
				// the running goroutine can continue: preempt with 1/SwitchDen
				if p.SwitchDen > 1 && ch.Choose("preempt", p.SwitchDen) != p.SwitchDen-1 {
					return cur
				}
				if p.SwitchDen <= 1 {
					return cands[ch.Choose("pick", len(cands))]
				}
				return cands[1+ch.Choose("pick", len(cands)-1)]
			}
			return cands[ch.Choose("pick", len(cands))]
		},
		Log: func(ev string) {
			// pointer values differ between processes: keep the event kind only
			if i := strings.Index(ev, " 0x"); i >= 0 {
				ev = ev[:i]
			}
			ev = strings.ReplaceAll(ev, outDir, "<out>") // per-process scratch path
			schedule.WriteString(ev)
			schedule.WriteByte(';')
		},
	}

	var runErr error
	var saveReturned bool
	var saveErr error
	switch p.Entry {
	case "formatfile":
		cache := &generator.Formatters{}
		k := 0
		os.MkdirAll(outDir, 0o755)
		defer os.RemoveAll(outDir)
		runErr = sim.Run(func() {
			for _, reqs := range p.Callers {
				mine := results[k : k+len(reqs)]
				k += len(reqs)
				verifsim.Go(func() {
					for _, r := range mine {
						if r.Req.Format == envChange {
							os.Setenv("PATH", os.Getenv("PATH")+string(os.PathListSeparator)+filepath.Join(outDir, r.Req.File))
							out.Fault("path_changed_while_cache_in_use")
							r.Returned = true
							continue
						}
						// like the command: write the generated code, then format the file
						path := filepath.Join(outDir, r.Req.File)
						if werr := os.WriteFile(path, []byte("generated code of "+r.Req.File+"\n"), 0o644); werr != nil {
							kernel.Harnessf("scratch: %v", werr)
						}
						err := cache.FormatFile(generator.Format(r.Req.Format), path)
						r.Returned = true
						if err != nil {
							r.HasErr, r.Err = true, err.Error()
						}
					}
				})
			}
		})
	case "saveoutputs":
		dir := outDir
		os.MkdirAll(dir, 0o755)
		runErr = sim.Run(func() {
			saveErr = callSaveOutputs(dir, p.Callers)
			saveReturned = true
		})
		os.RemoveAll(dir)
	default:
		kernel.Harnessf("unknown entry %q", p.Entry)
	}
	out.Steps = sim.Steps
	out.ProbeN("simulated_ms", int64(sim.Elapsed()/time.Millisecond))
	if st, ok := runErr.(verifsim.Stuck); ok {
		kernel.Harnessf("%s", st.Msg)
	}

	sig := "generator.Formatters.FormatFile"
	if p.Entry == "saveoutputs" {
		sig = "cmd.saveOutputs"
	}
	viol := func(clause, format string, a ...any) *kernel.Outcome {
		hist, _ := json.Marshal(w.events)
		out.Violation = &kernel.Violation{Property: "C20", Clause: clause, Signature: sig,
			Detail: fmt.Sprintf(format, a...) + fmt.Sprintf("\nworld=%v which=%v entry=%s\nexec history=%s\nschedule=%s", p.World, p.Which, p.Entry, hist, schedule.String())}
		return out
	}

	// (4) lock discipline and (3) completion
	for _, f := range sim.Failures {
		if p.Entry == "saveoutputs" && strings.Contains(f, "panicked: formatting") {
			continue // judged below: that is how saveOutputs reports a failing run
		}
		if strings.Contains(f, "unlocked an unlocked") || strings.Contains(f, "finished holding") || strings.Contains(f, "negative WaitGroup") {
			return viol("lock_discipline", "%s", f)
		}
		return viol("goroutine_panicked", "%s", f)
	}
	reportedFailure := ""
	for _, f := range sim.Failures {
		if strings.Contains(f, "panicked: formatting") {
			reportedFailure = f
		}
	}
	if b, ok := runErr.(verifsim.Blocked); ok && reportedFailure == "" {
		return viol("request_never_completes", "deadlock: %v", b.Waiting)
	}

	// (1) probes at most once per cache and tool
	probes := map[string]int{}
	for _, e := range w.events {
		if e.Kind == "probe" && e.Tool != "" {
			probes[e.Tool]++
		}
	}
	for _, t := range toolNames {
		if probes[t] > 1 {
			return viol("tool_probed_more_than_once", "%s was probed %d times on one cache", t, probes[t])
		}
		if probes[t] == 1 {
			out.Probe("probed_" + t)
		}
	}

	// (2) per request
	expectFailureReported := false
	nreq := map[string]int{}
	for _, r := range results {
		nreq[r.Req.File]++
	}
	for _, r := range results {
		if r.Req.Format == envChange {
			continue
		}
		t := toolFor(r.Req.Format)
		runsRight, runsAny := 0, 0
		for _, e := range w.events {
			if e.Kind == "run" && e.File == r.Req.File {
				runsAny++
				if e.Tool == t {
					runsRight++
				}
			}
		}
		if p.Entry == "formatfile" && !r.Returned {
			return viol("request_never_completes", "request %v did not return", r.Req)
		}
		usable := t != "" && (p.World[t] == installed || p.World[t] == runFails)
		if t == "goimports" && !p.Which {
			// the Go formatter is located through `which`: without it the tool
			// counts as absent. A tree that probes differently may still find
			// it: both "absent" and "usable" behaviours are legal here.
			if runsAny == 0 {
				usable = false
			}
			out.Probe("goimports_without_which")
		}
		switch {
		case t == "":
			if runsAny != 0 || r.HasErr {
				return viol("noformat_not_noop", "request %v: %d runs, err=%q", r.Req, runsAny, r.Err)
			}
		case !usable:
			if runsAny != 0 {
				return viol("absent_tool_was_run", "request %v: tool %s is %s but %d formatter run(s) touched the file", r.Req, t, p.World[t], runsAny)
			}
			if r.HasErr {
				return viol("absent_tool_request_fails", "request %v: tool %s is %s, request must succeed, got error %q", r.Req, t, p.World[t], r.Err)
			}
			out.Probe("absent_ok")
		default:
			if want := nreq[r.Req.File]; runsRight != want || runsAny != want {
				return viol("formatter_not_run_exactly_once", "request %v (file submitted %d time(s)): tool %s is %s: %d run(s) by it, %d by any tool", r.Req, want, t, p.World[t], runsRight, runsAny)
			}
			if nreq[r.Req.File] > 1 {
				out.Probe("same_file_submitted_again")
			}
			if p.World[t] == runFails {
				expectFailureReported = true
				if p.Entry == "formatfile" && !r.HasErr {
					return viol("failing_run_not_reported", "request %v: the formatter run failed but FormatFile returned nil", r.Req)
				}
				out.Probe("failing_run_reported")
			} else if r.HasErr {
				return viol("successful_run_reported_as_error", "request %v: %q", r.Req, r.Err)
			} else {
				out.Probe("formatted_ok")
			}
		}
	}
	if p.Entry == "saveoutputs" {
		switch {
		case expectFailureReported && reportedFailure == "" && saveErr == nil:
			return viol("failing_run_not_reported", "saveOutputs: a formatter run failed but nothing was reported (returned=%v)", saveReturned)
		case !expectFailureReported && (reportedFailure != "" || saveErr != nil):
			return viol("successful_run_reported_as_error", "saveOutputs: reported %q / %v although no run failed", reportedFailure, saveErr)
		case !expectFailureReported && !saveReturned:
			return viol("request_never_completes", "saveOutputs did not return")
		}
	}

	ncallers := len(p.Callers)
	if ncallers >= 2 {
		out.Keys = append(out.Keys, schedule.String(), "@interleaving:"+schedule.String(), "@world:"+worldKey(&p))
	}
	if len(out.Keys) > 0 && strings.Count(schedule.String(), "switch") > ncallers+1 {
		out.Probe("preempted_mid_request")
	}
	out.Sample = map[string]any{"world": p.World, "which": p.Which, "entry": p.Entry, "callers": p.Callers, "exec_history": w.events}
	return out
}

func worldKey(p *params) string {
	var ks []string
	for k, v := range p.World {
		ks = append(ks, k+"="+v)
	}
	sort.Strings(ks)
	return fmt.Sprintf("%v which=%v", ks, p.Which)
}

func (c20) Shrink(raw json.RawMessage) []json.RawMessage {
	var p params
	json.Unmarshal(raw, &p)
	var out []json.RawMessage
	for _, cs := range kernel.ShrinkList(p.Callers) {
		if len(cs) == 0 {
			continue
		}
		q := p
		q.Callers = cs
		out = append(out, kernel.MustJSON(q))
	}
	for i, c := range p.Callers {
		if len(c) > 1 {
			for _, rs := range kernel.ShrinkList(c) {
				if len(rs) == 0 {
					continue
				}
				q := p
				q.Callers = append([][]request(nil), p.Callers...)
				q.Callers[i] = rs
				out = append(out, kernel.MustJSON(q))
			}
		}
	}
	// simpler world: make tools installed one by one
	var ts []string
	for t := range p.World {
		ts = append(ts, t)
	}
	sort.Strings(ts)
	for _, t := range ts {
		if p.World[t] != installed {
			q := p
			q.World = map[string]string{}
			for k, v := range p.World {
				q.World[k] = v
			}
			q.World[t] = installed
			out = append(out, kernel.MustJSON(q))
		}
	}
	if !p.Which {
		q := p
		q.Which = true
		out = append(out, kernel.MustJSON(q))
	}
	if p.Stray != "" {
		q := p
		q.Stray = ""
		out = append(out, kernel.MustJSON(q))
	}
	for _, t := range ts {
		if p.Chatty[t] {
			q := p
			q.Chatty = map[string]bool{}
			for k, v := range p.Chatty {
				if k != t {
					q.Chatty[k] = v
				}
			}
			out = append(out, kernel.MustJSON(q))
		}
	}
	if p.SwitchDen < 6 {
		q := p
		q.SwitchDen = 6
		out = append(out, kernel.MustJSON(q))
	}
	return out
}

var _ = errors.New

func main() {
	if os.Getenv("C20_RACESAVE") != "" {
		raceSave()
		return
	}
	kernel.Main(c20{})
}
