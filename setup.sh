#!/bin/bash
# Offline setup: build the instrumenter and warm the Go build cache.
set -e
cd "$(dirname "${BASH_SOURCE[0]}")"
export GOFLAGS=-mod=mod GOPROXY=off GOSUMDB=off GOTOOLCHAIN=local CGO_ENABLED=0
mkdir -p bin evidence
go build -trimpath -o bin/instr ./instr
go build -trimpath ./kernel/... ./pgsim/... 2>/dev/null || true
echo "setup ok"
