package verifsim

import (
	"fmt"
	"reflect"
)

// Channels: send, receive, close and range over a channel in instrumented
// code go through these functions. Under the simulator a channel operation is
// a scheduling point and a goroutine that would block is parked until the
// operation can proceed; outside a simulation they are the plain operations.
// (select statements are not rewritten; the instrumenter reports them.)

type chanInfo struct {
	recvWaiting int
	handoff     []any // unbuffered channels: values committed by a sender to a parked receiver
	closed      bool
}

func (s *Sim) chanOf(ch any) *chanInfo {
	if s.chans == nil {
		s.chans = map[uintptr]*chanInfo{}
	}
	k := reflect.ValueOf(ch).Pointer()
	ci := s.chans[k]
	if ci == nil {
		ci = &chanInfo{}
		s.chans[k] = ci
	}
	return ci
}

// Send replaces `ch <- v`.
func Send[T any](ch chan<- T, v T) {
	s := active
	if s == nil {
		ch <- v
		return
	}
	if ch == nil {
		s.park("chan.send(nil)", func() bool { return true })
		return
	}
	ci := s.chanOf(ch)
	s.logf("g%d send?", s.cur.id)
	if cap(ch) > 0 {
		s.park("chan.send", func() bool { return !ci.closed && len(ch) >= cap(ch) })
		if ci.closed {
			panic("send on closed channel")
		}
		ch <- v
		s.logf("g%d sent", s.cur.id)
		return
	}
	s.park("chan.send", func() bool { return !ci.closed && ci.recvWaiting <= len(ci.handoff) })
	if ci.closed {
		panic("send on closed channel")
	}
	ci.handoff = append(ci.handoff, v)
	s.logf("g%d sent", s.cur.id)
}

// Recv2 replaces `v, ok := <-ch`.
func Recv2[T any](ch <-chan T) (T, bool) {
	s := active
	if s == nil {
		v, ok := <-ch
		return v, ok
	}
	var zero T
	if ch == nil {
		s.park("chan.recv(nil)", func() bool { return true })
		return zero, false
	}
	ci := s.chanOf(ch)
	s.logf("g%d recv?", s.cur.id)
	if cap(ch) > 0 {
		s.park("chan.recv", func() bool { return !ci.closed && len(ch) == 0 })
		if len(ch) == 0 {
			return zero, false // closed and drained
		}
		v, ok := <-ch
		s.logf("g%d received", s.cur.id)
		return v, ok
	}
	ci.recvWaiting++
	s.park("chan.recv", func() bool { return !ci.closed && len(ci.handoff) == 0 })
	ci.recvWaiting--
	if len(ci.handoff) == 0 {
		return zero, false
	}
	v := ci.handoff[0].(T)
	ci.handoff = ci.handoff[1:]
	s.logf("g%d received", s.cur.id)
	return v, true
}

// Recv replaces `<-ch`.
func Recv[T any](ch <-chan T) T {
	v, _ := Recv2(ch)
	return v
}

// Close replaces close(ch).
func Close[T any](ch chan<- T) {
	s := active
	if s == nil {
		close(ch)
		return
	}
	ci := s.chanOf(ch)
	if ci.closed {
		panic("close of closed channel")
	}
	ci.closed = true
	close(ch)
	s.logf("g%d close", s.cur.id)
	s.park("chan.close", nil)
}

var _ = fmt.Sprint
