package verifsim

import (
	"fmt"
	"reflect"
)

// Channels: send, receive, close and range over a channel in instrumented
// code go through these functions. Under the simulator a channel operation is
// a scheduling point and a goroutine that would block is parked until the
// operation can proceed; outside a simulation they are the plain operations.
// A blocking select statement is rewritten into a call of Select (below).

type chanInfo struct {
	recvWaiting int
	handoff     []any // unbuffered channels: values committed by a sender to a parked receiver
	closed      bool
	// selectors parked with a receive / a send case on this unbuffered channel
	selRecv, selSend []*selReg
}

func (s *Sim) chanOf(ch any) *chanInfo {
	if s.chans == nil {
		s.chans = map[uintptr]*chanInfo{}
	}
	k := reflect.ValueOf(ch).Pointer()
	ci := s.chans[k]
	if ci == nil {
		ci = &chanInfo{}
		s.chans[k] = ci
	}
	return ci
}

// Send replaces `ch <- v`.
func Send[T any](ch chan<- T, v T) {
	s := active
	if s == nil {
		ch <- v
		return
	}
	if ch == nil {
		s.park("chan.send(nil)", func() bool { return true })
		return
	}
	ci := s.chanOf(ch)
	s.logf("g%d send?", s.cur.id)
	if cap(ch) > 0 {
		s.park("chan.send", func() bool { return !ci.closed && len(ch) >= cap(ch) })
		if ci.closed {
			panic("send on closed channel")
		}
		ch <- v
		s.logf("g%d sent", s.cur.id)
		return
	}
	s.park("chan.send", func() bool { return !ci.closed && ci.recvWaiting <= len(ci.handoff) && len(ci.selRecv) == 0 })
	if ci.closed {
		panic("send on closed channel")
	}
	if ci.recvWaiting > len(ci.handoff) {
		ci.handoff = append(ci.handoff, v)
	} else {
		// a goroutine parked in a select with a receive case on this channel takes the value
		s.fire(ci.selRecv[0], v, true)
	}
	s.logf("g%d sent", s.cur.id)
}

// Recv2 replaces `v, ok := <-ch`.
func Recv2[T any](ch <-chan T) (T, bool) {
	s := active
	if s == nil {
		v, ok := <-ch
		return v, ok
	}
	var zero T
	if ch == nil {
		s.park("chan.recv(nil)", func() bool { return true })
		return zero, false
	}
	ci := s.chanOf(ch)
	s.logf("g%d recv?", s.cur.id)
	if cap(ch) > 0 {
		s.park("chan.recv", func() bool { return !ci.closed && len(ch) == 0 })
		if len(ch) == 0 {
			return zero, false // closed and drained
		}
		v, ok := <-ch
		s.logf("g%d received", s.cur.id)
		return v, ok
	}
	ci.recvWaiting++
	s.park("chan.recv", func() bool { return !ci.closed && len(ci.handoff) == 0 })
	ci.recvWaiting--
	if len(ci.handoff) == 0 {
		return zero, false
	}
	v, _ := ci.handoff[0].(T) // (a nil interface value is the zero T)
	ci.handoff = ci.handoff[1:]
	s.logf("g%d received", s.cur.id)
	return v, true
}

// Recv replaces `<-ch`.
func Recv[T any](ch <-chan T) T {
	v, _ := Recv2(ch)
	return v
}

// Close replaces close(ch).
func Close[T any](ch chan<- T) {
	s := active
	if s == nil {
		close(ch)
		return
	}
	ci := s.chanOf(ch)
	if ci.closed {
		panic("close of closed channel")
	}
	ci.closed = true
	close(ch)
	s.logf("g%d close", s.cur.id)
	s.park("chan.close", nil)
}

// ---- select ----------------------------------------------------------------

// SelCase is one communication clause of a select statement.
type SelCase struct {
	send bool
	ch   reflect.Value
	val  reflect.Value
}

// SelRecv is the clause `case [v[, ok] :=] <-ch`.
func SelRecv[T any](ch <-chan T) SelCase { return SelCase{ch: reflect.ValueOf(ch)} }

// SelSend is the clause `case ch <- v`.
func SelSend[T any](ch chan<- T, v T) SelCase {
	return SelCase{send: true, ch: reflect.ValueOf(ch), val: reflect.ValueOf(&v).Elem()}
}

// SelResult tells which clause proceeded (-1: the default clause) and, for a
// receive, what was received.
type SelResult struct {
	Index int
	Value any
	Ok    bool
}

// SelValue returns the value received by the chosen clause with its type.
func SelValue[T any](r SelResult, ch <-chan T) T {
	v, _ := r.Value.(T)
	return v
}

type selWaiter struct {
	fired bool
	res   SelResult
	regs  []*chanInfo
}

type selReg struct {
	w     *selWaiter
	index int
	val   any // send clauses: the value offered
}

// fire completes the select of a parked goroutine through clause r.
func (s *Sim) fire(r *selReg, v any, ok bool) {
	r.w.fired = true
	r.w.res = SelResult{Index: r.index, Value: v, Ok: ok}
	s.unregister(r.w)
}

func (s *Sim) unregister(w *selWaiter) {
	drop := func(rs []*selReg) []*selReg {
		var kept []*selReg
		for _, r := range rs {
			if r.w != w {
				kept = append(kept, r)
			}
		}
		return kept
	}
	for _, ci := range w.regs {
		ci.selRecv, ci.selSend = drop(ci.selRecv), drop(ci.selSend)
	}
	w.regs = nil
}

func others(rs []*selReg, w *selWaiter) *selReg {
	for _, r := range rs {
		if r.w != w {
			return r
		}
	}
	return nil
}

// Select replaces a select statement: it blocks until one clause can proceed
// (or returns -1 at once when the statement has a default clause), performs
// that communication and tells which one it was. When several clauses can
// proceed the scheduler decides (Go chooses at random).
func Select(hasDefault bool, cases ...SelCase) SelResult {
	s := active
	if s == nil {
		rc := make([]reflect.SelectCase, 0, len(cases)+1)
		for _, c := range cases {
			if c.send {
				rc = append(rc, reflect.SelectCase{Dir: reflect.SelectSend, Chan: c.ch, Send: c.val})
			} else {
				rc = append(rc, reflect.SelectCase{Dir: reflect.SelectRecv, Chan: c.ch})
			}
		}
		if hasDefault {
			rc = append(rc, reflect.SelectCase{Dir: reflect.SelectDefault})
		}
		i, v, ok := reflect.Select(rc)
		if i == len(cases) {
			return SelResult{Index: -1}
		}
		if cases[i].send || !ok {
			return SelResult{Index: i}
		}
		return SelResult{Index: i, Value: v.Interface(), Ok: true}
	}
	w := &selWaiter{}
	info := func(c SelCase) *chanInfo { return s.chanOf(c.ch.Interface()) }
	ready := func() []int {
		var out []int
		for i, c := range cases {
			if c.ch.IsNil() {
				continue // a nil channel never proceeds
			}
			ci := info(c)
			switch {
			case ci.closed:
				out = append(out, i) // receive: zero value; send: panics, as in Go
			case c.send && c.ch.Cap() > 0:
				if c.ch.Len() < c.ch.Cap() {
					out = append(out, i)
				}
			case c.send:
				if ci.recvWaiting > len(ci.handoff) || others(ci.selRecv, w) != nil {
					out = append(out, i)
				}
			case c.ch.Cap() > 0:
				if c.ch.Len() > 0 {
					out = append(out, i)
				}
			default:
				if len(ci.handoff) > 0 || others(ci.selSend, w) != nil {
					out = append(out, i)
				}
			}
		}
		return out
	}
	s.logf("g%d select?", s.cur.id)
	s.park("select", nil)
	rd := ready()
	if len(rd) == 0 {
		if hasDefault {
			s.logf("g%d select default", s.cur.id)
			return SelResult{Index: -1}
		}
		// park, visible to the other side of every unbuffered channel
		for i, c := range cases {
			if c.ch.IsNil() || c.ch.Cap() > 0 {
				continue
			}
			ci := info(c)
			r := &selReg{w: w, index: i}
			if c.send {
				r.val = c.val.Interface()
				ci.selSend = append(ci.selSend, r)
			} else {
				ci.selRecv = append(ci.selRecv, r)
			}
			w.regs = append(w.regs, ci)
		}
		s.park("select", func() bool { return !w.fired && len(ready()) == 0 })
		if w.fired {
			s.logf("g%d select -> %d", s.cur.id, w.res.Index)
			return w.res
		}
		s.unregister(w)
		rd = ready()
	}
	i := rd[0]
	if len(rd) > 1 && s.Pick != nil {
		i = s.Pick("select", s.cur.id, rd)
	}
	c := cases[i]
	ci := info(c)
	s.logf("g%d select -> %d", s.cur.id, i)
	switch {
	case c.send && ci.closed:
		panic("send on closed channel")
	case c.send && c.ch.Cap() > 0:
		c.ch.Send(c.val)
		return SelResult{Index: i}
	case c.send:
		if ci.recvWaiting > len(ci.handoff) {
			ci.handoff = append(ci.handoff, c.val.Interface())
		} else {
			s.fire(others(ci.selRecv, w), c.val.Interface(), true)
		}
		return SelResult{Index: i}
	case c.ch.Cap() > 0:
		if c.ch.Len() == 0 {
			return SelResult{Index: i} // closed and drained
		}
		v, ok := c.ch.Recv()
		return SelResult{Index: i, Value: v.Interface(), Ok: ok}
	default:
		if len(ci.handoff) > 0 {
			v := ci.handoff[0]
			ci.handoff = ci.handoff[1:]
			return SelResult{Index: i, Value: v, Ok: true}
		}
		if r := others(ci.selSend, w); r != nil {
			v := r.val
			s.fire(r, nil, false)
			return SelResult{Index: i, Value: v, Ok: true}
		}
		return SelResult{Index: i} // closed
	}
}

var _ = fmt.Sprint
