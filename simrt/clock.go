package verifsim

import (
	"context"
	"sync"
	"time"
)

// The simulated clock. The code under test has no timer today; if a change
// introduces one (time.Now, time.Sleep, context.WithTimeout, CommandContext)
// the instrumenter routes it here, so that deadlines read simulated time:
// external commands take the simulated duration the tool world assigns them
// and minutes cost microseconds. Outside a simulation everything is real.

var epoch = time.Date(2000, 1, 1, 0, 0, 0, 0, time.UTC)

// ExecDurationHook gives the simulated duration of an external command.
var ExecDurationHook func(name string, args []string) time.Duration

// Elapsed is the simulated time since the simulation started.
func (s *Sim) Elapsed() time.Duration { return s.clock }

func (s *Sim) advanceTo(t time.Duration) {
	if t > s.clock {
		s.clock = t
	}
	for _, c := range s.ctxs {
		c.check(s)
	}
}

func Now() time.Time {
	if s := active; s != nil {
		return epoch.Add(s.clock)
	}
	return time.Now()
}

func Since(t time.Time) time.Duration { return Now().Sub(t) }
func Until(t time.Time) time.Duration { return t.Sub(Now()) }

func Sleep(d time.Duration) {
	s := active
	if s == nil {
		time.Sleep(d)
		return
	}
	wake := s.clock + d
	s.park("sleep", nil)
	s.advanceTo(wake)
}

type simCtx struct {
	context.Context // parent
	deadline        time.Duration
	done            chan struct{}
	once            sync.Once
	err             error
}

func (c *simCtx) check(s *Sim) {
	if c.err == nil && s.clock >= c.deadline {
		c.err = context.DeadlineExceeded
		c.once.Do(func() { close(c.done) })
	}
}

func (c *simCtx) Deadline() (time.Time, bool) { return epoch.Add(c.deadline), true }
func (c *simCtx) Done() <-chan struct{}       { return c.done }
func (c *simCtx) Err() error {
	if c.err != nil {
		return c.err
	}
	return c.Context.Err()
}

// WithTimeout replaces context.WithTimeout.
func WithTimeout(parent context.Context, d time.Duration) (context.Context, context.CancelFunc) {
	s := active
	if s == nil {
		return context.WithTimeout(parent, d)
	}
	return withDeadline(s, parent, s.clock+d)
}

// WithDeadline replaces context.WithDeadline.
func WithDeadline(parent context.Context, t time.Time) (context.Context, context.CancelFunc) {
	s := active
	if s == nil {
		return context.WithDeadline(parent, t)
	}
	return withDeadline(s, parent, t.Sub(epoch))
}

func withDeadline(s *Sim, parent context.Context, deadline time.Duration) (context.Context, context.CancelFunc) {
	if pd, ok := parent.Deadline(); ok {
		if p := pd.Sub(epoch); p < deadline {
			deadline = p
		}
	}
	c := &simCtx{Context: parent, deadline: deadline, done: make(chan struct{})}
	s.ctxs = append(s.ctxs, c)
	c.check(s)
	return c, func() {
		if c.err == nil {
			c.err = context.Canceled
			c.once.Do(func() { close(c.done) })
		}
	}
}
