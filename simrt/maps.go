package verifsim

import (
	"fmt"
	"sort"
)

// Pair is one map entry handed to an instrumented range statement.
type Pair[K comparable, V any] struct {
	K K
	V V
}

// MapHook, when set, decides the iteration order of every instrumented range
// over a map: it receives the site ("file:line") and the number of entries and
// returns a permutation of [0,n) applied to the canonically ordered entries
// (nil = canonical order). When unset the runtime's own order is used.
var MapHook func(site string, n int) []int

// MapTies counts entries whose canonical rendering collides with another
// entry's; such entries keep the runtime's relative order.
var MapTies int64

// MapPairs returns the entries of m in the order the simulator decides.
func MapPairs[M ~map[K]V, K comparable, V any](m M, site string) []Pair[K, V] {
	out := make([]Pair[K, V], 0, len(m))
	for k, v := range m {
		out = append(out, Pair[K, V]{k, v})
	}
	hook := MapHook
	if hook == nil {
		return out
	}
	if len(out) >= 2 {
		keys := make([]string, len(out))
		for i := range out {
			keys[i] = render(out[i].K)
		}
		idx := make([]int, len(out))
		for i := range idx {
			idx[i] = i
		}
		sort.SliceStable(idx, func(a, b int) bool { return keys[idx[a]] < keys[idx[b]] })
		sorted := make([]Pair[K, V], len(out))
		for i, j := range idx {
			sorted[i] = out[j]
			if i > 0 && keys[j] == keys[idx[i-1]] {
				MapTies++
			}
		}
		out = sorted
	}
	perm := hook(site, len(out))
	if perm == nil {
		return out
	}
	if len(perm) != len(out) {
		panic(fmt.Sprintf("verifsim: MapHook returned %d indices for %d entries", len(perm), len(out)))
	}
	res := make([]Pair[K, V], len(out))
	for i, j := range perm {
		res[i] = out[j]
	}
	return res
}

func render(k any) string {
	switch v := k.(type) {
	case string:
		return "s|" + v
	case fmt.Stringer:
		return fmt.Sprintf("%T|%s", k, v.String())
	default:
		return fmt.Sprintf("%T|%v", k, k)
	}
}
