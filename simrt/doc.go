// Package verifsim is the run-time half of the verification seams. It is
// copied into a scratch copy of the repository by /verif/check and is never
// part of the shipped module.
package verifsim
