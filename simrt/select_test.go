package verifsim

import (
	"fmt"
	"sort"
	"strings"
	"testing"
)

// runSim executes main under a scheduler that follows `order` (indices into
// the candidate list, 0 when exhausted).
func runSim(t *testing.T, order []int, main func()) (*Sim, error) {
	k := 0
	s := &Sim{Pick: func(site string, cur int, cands []int) int {
		i := 0
		if k < len(order) {
			i = order[k] % len(cands)
		}
		k++
		return cands[i]
	}}
	err := s.Run(main)
	return s, err
}

// every schedule of a small owner-goroutine protocol (the shape of a cache
// served by one goroutine) delivers each request exactly one answer.
func TestSelectOwnerProtocol(t *testing.T) {
	for seed := 0; seed < 400; seed++ {
		order := make([]int, 64)
		x := uint32(seed*2654435761 + 1)
		for i := range order {
			x = x*1664525 + 1013904223
			order[i] = int(x >> 16)
		}
		var got []string
		_, err := runSim(t, order, func() {
			type query struct {
				k     int
				reply chan int
			}
			queries := make(chan query)
			settled := make(chan struct{})
			var final [3]int
			Go(func() {
				known := 0
				var vals [3]int
				for {
					q, ok := Recv2(queries)
					if !ok {
						return
					}
					if vals[q.k] == 0 {
						vals[q.k] = 10 + q.k
						known++
					}
					Send(q.reply, vals[q.k])
					if known == 3 {
						final = vals
						Close(settled)
						return
					}
				}
			})
			var wg WaitGroup
			for c := 0; c < 5; c++ {
				c := c
				wg.Add(1)
				Go(func() {
					defer wg.Done()
					k := c % 3
					reply := make(chan int, 1)
					r := Select(false, SelRecv(settled), SelSend(queries, query{k, reply}))
					var v int
					switch r.Index {
					case 0:
						v = final[k]
					case 1:
						v = Recv(reply)
					}
					got = append(got, fmt.Sprintf("%d=%d", c, v))
				})
			}
			wg.Wait()
		})
		if err != nil {
			t.Fatalf("seed %d: %v", seed, err)
		}
		sort.Strings(got)
		if strings.Join(got, " ") != "0=10 1=11 2=12 3=10 4=11" {
			t.Fatalf("seed %d: %v", seed, got)
		}
	}
}

func TestSelectBasics(t *testing.T) {
	// default clause, buffered channels, closed channels, receive values
	_, err := runSim(t, nil, func() {
		a := make(chan int)
		b := make(chan string, 1)
		if r := Select(true, SelRecv(a), SelRecv(b)); r.Index != -1 {
			t.Errorf("nothing ready: %+v", r)
		}
		if r := Select(true, SelRecv(a), SelSend(b, "x")); r.Index != 1 {
			t.Errorf("buffered send: %+v", r)
		}
		if r := Select(false, SelRecv(a), SelRecv(b)); r.Index != 1 || SelValue(r, b) != "x" || !r.Ok {
			t.Errorf("buffered receive: %+v", r)
		}
		Go(func() { Send(a, 7) })
		if r := Select(false, SelRecv(a), SelRecv(b)); r.Index != 0 || SelValue(r, a) != 7 || !r.Ok {
			t.Errorf("unbuffered receive from a parked sender: %+v", r)
		}
		Go(func() {
			r := Select(false, SelSend(a, 9))
			if r.Index != 0 {
				t.Errorf("send select: %+v", r)
			}
		})
		if v := Recv(a); v != 9 {
			t.Errorf("plain receive from a selecting sender: %d", v)
		}
		Close(a)
		if r := Select(false, SelRecv(a)); r.Index != 0 || r.Ok || SelValue(r, a) != 0 {
			t.Errorf("closed: %+v", r)
		}
		var nilch chan int
		if r := Select(true, SelRecv(nilch)); r.Index != -1 {
			t.Errorf("nil channel: %+v", r)
		}
	})
	if err != nil {
		t.Fatal(err)
	}
	// two selectors meet on an unbuffered channel
	_, err = runSim(t, nil, func() {
		a := make(chan int)
		res := make(chan int, 1)
		Go(func() {
			r := Select(false, SelRecv(a))
			res <- SelValue(r, a)
		})
		Select(false, SelSend(a, 5))
		Yield("x")
		Yield("x")
		if len(res) != 1 || <-res != 5 {
			t.Errorf("selector to selector")
		}
	})
	if err != nil {
		t.Fatal(err)
	}
	// a goroutine parked for ever after main returned is not a deadlock; a parked main is
	s, err := runSim(t, nil, func() {
		a := make(chan int)
		Go(func() { Recv(a) })
	})
	if err != nil || len(s.Leaked) != 1 {
		t.Fatalf("leak: %v %v", err, s.Leaked)
	}
	_, err = runSim(t, nil, func() {
		a := make(chan int)
		Select(false, SelRecv(a))
	})
	if _, ok := err.(Blocked); !ok {
		t.Fatalf("deadlock not reported: %v", err)
	}
}

// outside a simulation Select is the plain statement
func TestSelectOutsideSimulation(t *testing.T) {
	b := make(chan string, 1)
	if r := Select(true, SelRecv(b)); r.Index != -1 {
		t.Fatal(r)
	}
	if r := Select(false, SelSend(b, "v")); r.Index != 0 {
		t.Fatal(r)
	}
	if r := Select(false, SelRecv(b)); r.Index != 0 || SelValue(r, b) != "v" {
		t.Fatal(r)
	}
}
