package verifsim

import (
	"fmt"
	"runtime/debug"
	"sync"
	"time"
)

// Sim is a cooperative scheduler: the simulated goroutines are real
// goroutines, but exactly one of them runs at any time and the choice of who
// runs next is made by the Pick function at every yield point (before every
// lock, unlock, wait-group operation, spawn and external command).
//
// When no simulation is active the primitives of this package behave like
// their sync / os/exec originals, so instrumented code also runs free.
type Sim struct {
	// Pick chooses among the runnable goroutines; cands[0] is the goroutine
	// that was running (if it still can), the others follow in id order.
	Pick func(site string, cur int, cands []int) int
	// Log receives one line per scheduling event.
	Log func(ev string)

	gs       []*g
	cur      *g
	yielded  chan struct{}
	Steps    int64
	Failures []string // discipline violations, goroutine panics
	Leaked   []string // goroutines still parked when the main goroutine had returned
	Timeout  time.Duration
	chans    map[uintptr]*chanInfo
	clock    time.Duration // simulated time
	ctxs     []*simCtx
}

type g struct {
	id      int
	wake    chan struct{}
	done    bool
	blocked func() bool // non-nil: goroutine can run only when it returns false
	why     string
	held    int
}

var active *Sim

// Active reports whether a simulation is running.
func Active() bool { return active != nil }

// Blocked is returned by Run when the simulated program deadlocks.
type Blocked struct{ Waiting []string }

func (b Blocked) Error() string { return fmt.Sprintf("deadlock: %v", b.Waiting) }

// Stuck is returned when a goroutine neither yields nor finishes in real
// time: it is blocked on something the simulator does not own.
type Stuck struct{ Msg string }

func (s Stuck) Error() string { return s.Msg }

func (s *Sim) logf(format string, a ...any) {
	if s.Log != nil {
		s.Log(fmt.Sprintf(format, a...))
	}
}

// Run executes main as simulated goroutine 0 and schedules until every
// simulated goroutine has finished.
func (s *Sim) Run(main func()) error {
	if active != nil {
		panic("verifsim: nested simulation")
	}
	if s.Timeout == 0 {
		s.Timeout = 20 * time.Second
	}
	s.yielded = make(chan struct{})
	active = s
	defer func() { active = nil }()
	s.spawn(main)
	for {
		var cands []int
		if s.cur != nil && !s.cur.done && (s.cur.blocked == nil || !s.cur.blocked()) {
			cands = append(cands, s.cur.id)
		}
		for _, x := range s.gs {
			if x.done || x == s.cur {
				continue
			}
			if x.blocked == nil || !x.blocked() {
				cands = append(cands, x.id)
			}
		}
		if len(cands) == 0 {
			var waiting []string
			for _, x := range s.gs {
				if !x.done {
					waiting = append(waiting, fmt.Sprintf("g%d:%s", x.id, x.why))
				}
			}
			if len(waiting) == 0 {
				return nil
			}
			if s.gs[0].done {
				// the main goroutine has returned: a Go program ends there,
				// whatever other goroutines are still parked on (a helper
				// waiting for requests that will never come is a leak, not a
				// deadlock)
				s.Leaked = waiting
				return nil
			}
			// release the parked goroutines so they do not leak: not possible
			// in general; they stay parked on their wake channel (bounded by
			// the number of runs that deadlock).
			return Blocked{waiting}
		}
		curID := -1
		if s.cur != nil {
			curID = s.cur.id
		}
		next := cands[0]
		if len(cands) > 1 {
			site := "start"
			if s.cur != nil {
				site = s.cur.why
			}
			next = s.Pick(site, curID, cands)
		}
		nx := s.gs[next]
		if nx != s.cur {
			s.logf("switch g%d", next)
		}
		s.cur = nx
		nx.blocked = nil
		s.Steps++
		nx.wake <- struct{}{}
		select {
		case <-s.yielded:
		case <-time.After(s.Timeout):
			return Stuck{fmt.Sprintf("g%d did not reach a yield point within %v after %q: blocked outside the simulator", nx.id, s.Timeout, nx.why)}
		}
	}
}

func (s *Sim) spawn(f func()) *g {
	x := &g{id: len(s.gs), wake: make(chan struct{}), why: "spawned"}
	s.gs = append(s.gs, x)
	go func() {
		<-x.wake
		defer func() {
			if r := recover(); r != nil {
				s.Failures = append(s.Failures, fmt.Sprintf("g%d panicked: %v", x.id, r))
				s.logf("g%d panic %v", x.id, r)
				_ = debug.Stack
			}
			if x.held != 0 {
				s.Failures = append(s.Failures, fmt.Sprintf("g%d finished holding %d lock(s)", x.id, x.held))
			}
			x.done = true
			x.why = "done"
			s.logf("g%d done", x.id)
			s.yielded <- struct{}{}
		}()
		f()
	}()
	return x
}

// park hands control back to the scheduler; the goroutine continues when it
// is picked again (and, if cond is given, only once cond() is false).
func (s *Sim) park(why string, cond func() bool) {
	x := s.cur
	x.why = why
	x.blocked = cond
	s.yielded <- struct{}{}
	<-x.wake
}

// Yield is a scheduling point.
func Yield(site string) {
	if s := active; s != nil {
		s.logf("g%d %s", s.cur.id, site)
		s.park(site, nil)
	}
}

// CurrentG returns the id of the running simulated goroutine, or -1.
func CurrentG() int {
	if s := active; s != nil && s.cur != nil {
		return s.cur.id
	}
	return -1
}

// Go replaces the go statement.
func Go(f func()) {
	s := active
	if s == nil {
		go f()
		return
	}
	x := s.spawn(f)
	s.logf("g%d go g%d", s.cur.id, x.id)
	s.park("go", nil)
}

// Mutex replaces sync.Mutex.
type Mutex struct {
	real   sync.Mutex
	locked bool
	owner  int
}

func (m *Mutex) Lock() {
	s := active
	if s == nil {
		m.real.Lock()
		return
	}
	s.logf("g%d lock? %p", s.cur.id, m)
	s.park("lock", func() bool { return m.locked })
	if m.locked {
		panic("verifsim: scheduled a goroutine onto a held mutex")
	}
	m.locked = true
	m.owner = s.cur.id
	s.cur.held++
	s.logf("g%d locked %p", s.cur.id, m)
}

func (m *Mutex) TryLock() bool {
	s := active
	if s == nil {
		return m.real.TryLock()
	}
	s.park("trylock", nil)
	if m.locked {
		return false
	}
	m.locked = true
	m.owner = s.cur.id
	s.cur.held++
	return true
}

func (m *Mutex) Unlock() {
	s := active
	if s == nil {
		m.real.Unlock()
		return
	}
	if !m.locked {
		s.Failures = append(s.Failures, fmt.Sprintf("g%d unlocked an unlocked mutex", s.cur.id))
		panic("sync: unlock of unlocked mutex")
	}
	m.locked = false
	if m.owner == s.cur.id {
		s.cur.held--
	} else if o := s.gs[m.owner]; o != nil {
		o.held--
	}
	s.logf("g%d unlock %p", s.cur.id, m)
	s.park("unlock", nil)
}

// RWMutex replaces sync.RWMutex.
type RWMutex struct {
	real    sync.RWMutex
	writer  bool
	readers int
}

func (m *RWMutex) Lock() {
	s := active
	if s == nil {
		m.real.Lock()
		return
	}
	s.park("wlock", func() bool { return m.writer || m.readers > 0 })
	m.writer = true
	s.cur.held++
}

func (m *RWMutex) Unlock() {
	s := active
	if s == nil {
		m.real.Unlock()
		return
	}
	if !m.writer {
		s.Failures = append(s.Failures, fmt.Sprintf("g%d unlocked an unlocked rwmutex", s.cur.id))
		panic("sync: Unlock of unlocked RWMutex")
	}
	m.writer = false
	s.cur.held--
	s.park("wunlock", nil)
}

func (m *RWMutex) RLock() {
	s := active
	if s == nil {
		m.real.RLock()
		return
	}
	s.park("rlock", func() bool { return m.writer })
	m.readers++
	s.cur.held++
}

func (m *RWMutex) RUnlock() {
	s := active
	if s == nil {
		m.real.RUnlock()
		return
	}
	if m.readers <= 0 {
		s.Failures = append(s.Failures, fmt.Sprintf("g%d r-unlocked an unlocked rwmutex", s.cur.id))
		panic("sync: RUnlock of unlocked RWMutex")
	}
	m.readers--
	s.cur.held--
	s.park("runlock", nil)
}

// WaitGroup replaces sync.WaitGroup.
type WaitGroup struct {
	real sync.WaitGroup
	n    int
}

func (w *WaitGroup) Add(d int) {
	s := active
	if s == nil {
		w.real.Add(d)
		return
	}
	w.n += d
	if w.n < 0 {
		s.Failures = append(s.Failures, "negative WaitGroup counter")
		panic("sync: negative WaitGroup counter")
	}
	s.logf("g%d wg.add %d -> %d", s.cur.id, d, w.n)
	s.park("wg.add", nil)
}

func (w *WaitGroup) Done() { w.Add(-1) }

func (w *WaitGroup) Wait() {
	s := active
	if s == nil {
		w.real.Wait()
		return
	}
	s.logf("g%d wg.wait", s.cur.id)
	s.park("wg.wait", func() bool { return w.n > 0 })
}

// Once replaces sync.Once.
type Once struct {
	real    sync.Once
	done    bool
	running bool
}

func (o *Once) Do(f func()) {
	s := active
	if s == nil {
		o.real.Do(f)
		return
	}
	s.park("once", func() bool { return o.running })
	if o.done {
		return
	}
	o.running = true
	defer func() {
		o.running = false
		o.done = true
		s.park("once.done", nil)
	}()
	f()
}

// Locker is what a Cond needs of its lock (verifsim.Mutex and the write side
// of verifsim.RWMutex satisfy it, like sync.Locker).
type Locker interface {
	Lock()
	Unlock()
}

// Cond replaces sync.Cond. Under the simulator Wait releases L, parks until a
// later Signal / Broadcast has released it, and takes L again; which of several
// waiters a Signal releases is the scheduler's decision like everything else.
type Cond struct {
	L Locker

	real *sync.Cond
	once sync.Once
	// tickets: each waiter takes the next ticket; Signal raises `released` by
	// one (if a waiter is left), Broadcast to the number of tickets handed out
	next, released int
}

func NewCond(l Locker) *Cond { return &Cond{L: l} }

func (c *Cond) realCond() *sync.Cond {
	c.once.Do(func() { c.real = sync.NewCond(c.L) })
	return c.real
}

func (c *Cond) Wait() {
	s := active
	if s == nil {
		c.realCond().Wait()
		return
	}
	c.next++
	ticket := c.next
	c.L.Unlock()
	s.logf("g%d cond.wait %p", s.cur.id, c)
	s.park("cond.wait", func() bool { return c.released < ticket })
	c.L.Lock()
}

func (c *Cond) Signal() {
	s := active
	if s == nil {
		c.realCond().Signal()
		return
	}
	if c.released < c.next {
		c.released++
	}
	s.park("cond.signal", nil)
}

func (c *Cond) Broadcast() {
	s := active
	if s == nil {
		c.realCond().Broadcast()
		return
	}
	c.released = c.next
	s.park("cond.broadcast", nil)
}

// OnceFunc, OnceValue and OnceValues replace the sync functions of the same
// names: the first call runs f (other callers park until it is done), every
// call returns its results; a panic of f is repeated for every caller.
func OnceFunc(f func()) func() {
	var once Once
	var p any
	var panicked bool
	return func() {
		once.Do(func() {
			defer func() {
				if r := recover(); r != nil {
					p, panicked = r, true
				}
			}()
			f()
		})
		if panicked {
			panic(p)
		}
	}
}

func OnceValue[T any](f func() T) func() T {
	var v T
	g := OnceFunc(func() { v = f() })
	return func() T { g(); return v }
}

func OnceValues[T1, T2 any](f func() (T1, T2)) func() (T1, T2) {
	var v1 T1
	var v2 T2
	g := OnceFunc(func() { v1, v2 = f() })
	return func() (T1, T2) { g(); return v1, v2 }
}
