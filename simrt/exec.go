package verifsim

import (
	"context"
	"io"
	"os"
	"os/exec"
	"sync"
	"time"
)

// ExecHook, when set, answers every external command started through this
// package instead of the operating system: it receives the command line and
// returns the combined output and the error Run would have returned.
var ExecHook func(name string, args []string, dir string) ([]byte, error)

// ExecStderrHook, when set, says what a simulated command writes on its
// standard error (notices and warnings of a tool that otherwise succeeds).
var ExecStderrHook func(name string, args []string) []byte

func (c *Cmd) stderrNoise() []byte {
	if ExecStderrHook == nil {
		return nil
	}
	return ExecStderrHook(c.Args[0], c.Args[1:])
}

// ExecEnvHook, when set, sees the environment a simulated command is started
// with (nil = the parent's, as in os/exec) before the command runs; a non-nil
// error is what Run returns instead of running it (a tool that cannot start
// without PATH or HOME, for instance).
var ExecEnvHook func(name string, env []string) error

// LookPathHook answers LookPath when set.
var LookPathHook func(file string) (string, error)

// Cmd mirrors the part of exec.Cmd the repository uses.
type Cmd struct {
	Path   string
	Args   []string
	Dir    string
	Env    []string
	Stdin  io.Reader
	Stdout io.Writer
	Stderr io.Writer
	// ProcessState is set like os/exec does: nil when the process could not
	// be started, the state of a real exited process otherwise.
	ProcessState *os.ProcessState

	ctx context.Context

	real    *exec.Cmd
	started bool
	out     []byte
	err     error
}

func Command(name string, arg ...string) *Cmd {
	return &Cmd{Path: name, Args: append([]string{name}, arg...)}
}

func CommandContext(ctx context.Context, name string, arg ...string) *Cmd {
	c := Command(name, arg...)
	c.ctx = ctx
	return c
}

func (c *Cmd) String() string {
	s := ""
	for i, a := range c.Args {
		if i > 0 {
			s += " "
		}
		s += a
	}
	return s
}

func (c *Cmd) realCmd() *exec.Cmd {
	rc := exec.Command(c.Args[0], c.Args[1:]...)
	if c.ctx != nil {
		rc = exec.CommandContext(c.ctx, c.Args[0], c.Args[1:]...)
	}
	rc.Dir, rc.Env, rc.Stdin, rc.Stdout, rc.Stderr = c.Dir, c.Env, c.Stdin, c.Stdout, c.Stderr
	return rc
}

var (
	okState     *os.ProcessState
	okStateOnce sync.Once // (commands of different tools may run at the same time in the free-running tiers)
)

func (c *Cmd) setState() {
	switch e := c.err.(type) {
	case nil:
		okStateOnce.Do(func() {
			rc := exec.Command("/bin/sh", "-c", "exit 0")
			rc.Run()
			okState = rc.ProcessState
		})
		c.ProcessState = okState
	case *exec.ExitError:
		c.ProcessState = e.ProcessState
	default:
		c.ProcessState = nil
	}
}

// simulate runs the command against the tool world in simulated time: it
// takes the duration the world assigns it; a context whose (simulated)
// deadline passes first kills it, as os/exec does.
func (c *Cmd) simulate() {
	s := active
	var finish time.Duration
	if s != nil {
		if c.ctx != nil && c.ctx.Err() != nil {
			c.out, c.err = nil, c.ctx.Err()
			c.setState()
			Yield("exec.refused")
			return
		}
		var d time.Duration
		if ExecDurationHook != nil {
			d = ExecDurationHook(c.Args[0], c.Args[1:])
		}
		finish = s.clock + d
		if c.ctx != nil {
			if dl, ok := c.ctx.Deadline(); ok && dl.Sub(epoch) < finish {
				// killed at the deadline
				kill := dl.Sub(epoch)
				Yield("exec.start")
				s.advanceTo(kill)
				c.out, c.err = nil, context.DeadlineExceeded
				c.ProcessState = nil
				Yield("exec.killed")
				return
			}
		}
	}
	Yield("exec.start")
	if ExecEnvHook != nil {
		if err := ExecEnvHook(c.Args[0], c.Env); err != nil {
			c.out, c.err = nil, err
			c.setState()
			if s != nil {
				s.advanceTo(finish)
			}
			Yield("exec.end")
			return
		}
	}
	c.out, c.err = ExecHook(c.Args[0], c.Args[1:], c.Dir)
	c.setState()
	if s != nil {
		s.advanceTo(finish)
	}
	Yield("exec.end")
}

func (c *Cmd) Run() error {
	if ExecHook == nil {
		rc := c.realCmd()
		err := rc.Run()
		c.ProcessState = rc.ProcessState
		return err
	}
	c.simulate()
	if c.Stdout != nil {
		c.Stdout.Write(c.out)
	}
	if noise := c.stderrNoise(); c.Stderr != nil && len(noise) != 0 {
		c.Stderr.Write(noise)
	}
	return c.err
}

func (c *Cmd) Output() ([]byte, error) {
	if ExecHook == nil {
		return c.realCmd().Output()
	}
	c.simulate()
	return c.out, c.err
}

func (c *Cmd) CombinedOutput() ([]byte, error) {
	if ExecHook == nil {
		return c.realCmd().CombinedOutput()
	}
	c.simulate()
	return append(c.out, c.stderrNoise()...), c.err
}

func (c *Cmd) Start() error {
	if ExecHook == nil {
		c.real = c.realCmd()
		return c.real.Start()
	}
	Yield("exec.start")
	c.started = true
	return nil
}

func (c *Cmd) Wait() error {
	if ExecHook == nil {
		return c.real.Wait()
	}
	c.out, c.err = ExecHook(c.Args[0], c.Args[1:], c.Dir)
	c.setState()
	Yield("exec.end")
	if c.Stdout != nil {
		c.Stdout.Write(c.out)
	}
	if noise := c.stderrNoise(); c.Stderr != nil && len(noise) != 0 {
		c.Stderr.Write(noise)
	}
	return c.err
}

func LookPath(file string) (string, error) {
	if LookPathHook == nil {
		return exec.LookPath(file)
	}
	Yield("lookpath")
	return LookPathHook(file)
}
