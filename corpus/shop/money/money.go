// Package money is a sub-package of the shop corpus program.
package money

type Currency uint8

const (
	Euro Currency = iota
	Dollar
	Pound
)

type Cents int64
