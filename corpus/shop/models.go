package shop

import (
	"database/sql"
	"time"

	"example.com/vs/shop/money"
)

type IdCustomer int64

// Customer is a primary table with an ID type, a unique column and a guard.
// gomacro:SQL ADD UNIQUE(Email)
// gomacro:SQL ADD CHECK (Tier IN (#[Tier.Basic], #[Tier.Premium], #[Tier.Deluxe], #[Tier.Legacy], #[Tier.Fan]))
// gomacro:QUERY NickFans UPDATE Customer SET Nick = $val$ WHERE Tier = #[Tier.Fan];
// gomacro:QUERY RenameCustomers UPDATE Customer SET Name = $val$ WHERE Tier = $sel$;
// gomacro:QUERY RelabelCustomers UPDATE Customer SET Nick = $val$ WHERE (Name = $sel$ OR Email = $sel$) AND Tier = $lim$;
type Customer struct {
	guard    Status `gomacro-sql-guard:"#[Status.Paid]"`
	Id       IdCustomer
	Name     string
	Nick     string
	Email    string
	Tier     Tier
	Address  Address
	Birthday Date
	Joined   time.Time
	Balance  money.Cents
}

// Product uses plain int64 ids, arrays, a composite and jsonb.
// gomacro:SQL ADD UNIQUE(Sku, Variant)
// gomacro:SQL _SELECT KEY(Variant)
type Product struct {
	Sku          string
	Id           int64
	Variant      int16
	Price        float64
	Currency     money.Currency
	Dims         Dimensions
	Labels       Labels
	Scores       Scores
	Flags        Flags
	Ratings      Ratings
	Attributes   Attributes
	Picture      []byte
	Discontinued sql.NullTime
	Note         sql.NullString
	guard        Tier `gomacro-sql-guard:"#[Tier.Basic]"`
}

// Order references a customer (cascade) and optionally a referrer (set null).
// gomacro:SQL _SELECT KEY(IdCustomer, Status)
type Order struct {
	Id         int64
	hits       int           // not exported and not a guard: not a column
	IdCustomer IdCustomer    `gomacro-sql-on-delete:"CASCADE"`
	Referrer   OptCustomer   `gomacro-sql-foreign:"Customer" gomacro-sql-on-delete:"SET NULL"`
	Gift       sql.NullInt64 `gomacro-sql-foreign:"Product"`
	Status     Status
	History    StatusLog
	Placed     time.Time
	Urgent     bool
}

// OrderLine is a link table with a composite primary key.
// gomacro:SQL ADD PRIMARY KEY (IdOrder, IdProduct)
// gomacro:SQL _SELECT KEY(Quantity)
type OrderLine struct {
	IdOrder   int64 `gomacro-sql-foreign:"Order" gomacro-sql-on-delete:"CASCADE"`
	IdProduct int64 `gomacro-sql-foreign:"Product"`
	seen      bool  // not a column
	Quantity  int
	Comment   string
}

// Favorite is a link table whose foreign key is unique.
// gomacro:SQL ADD UNIQUE(IdCustomer)
type Favorite struct {
	IdCustomer IdCustomer `gomacro-sql-on-delete:"CASCADE"`
	IdProduct  int64      `gomacro-sql-foreign:"Product" gomacro-sql-on-delete:"CASCADE"`
}

// Membership is a link table with a nullable foreign key next to a plain one.
type Membership struct {
	IdCustomer IdCustomer    `gomacro-sql-on-delete:"CASCADE"`
	Team       sql.NullInt64 `gomacro-sql-foreign:"Product" gomacro-sql-on-delete:"SET NULL"`
	Role       string
}

// Sponsorship is a link table whose nullable foreign key comes before a plain one.
type Sponsorship struct {
	Backer     sql.NullInt64 `gomacro-sql-foreign:"Product" gomacro-sql-on-delete:"SET NULL"`
	IdCustomer IdCustomer    `gomacro-sql-on-delete:"CASCADE"`
	Note       string
}

// Marker is a table made of its id only.
type Marker struct {
	Id int64
}

// Badge has a single column next to its id.
type Badge struct {
	Id    int64
	Label string
}

// Profil has field names with non-ASCII letters: legal Go, and PostgreSQL only
// folds ASCII letters of unquoted identifiers.
type Profil struct {
	Id     int64
	Élan   int
	Ünvan  string
	NomÉcu string
	Port   uint16
	Small  int8
}

// Preferred carries the very same constraint comment as Favorite.
// gomacro:SQL ADD UNIQUE(IdCustomer)
type Preferred struct {
	IdCustomer IdCustomer `gomacro-sql-on-delete:"CASCADE"`
	IdProduct  int64      `gomacro-sql-foreign:"Product" gomacro-sql-on-delete:"CASCADE"`
}

// Catalog refers to a product by the pair of columns that is unique there
// (a user constraint of Product); its table name sorts before "products".
// gomacro:SQL ADD FOREIGN KEY (Sku, Variant) REFERENCES Product (Sku, Variant)
type Catalog struct {
	Id      int64
	Sku     string
	Variant int16
	Page    int
}

// École and Élève: a foreign key field with a non-ASCII capital.
type École struct {
	Id  int64
	Nom string
}

type Élève struct {
	Id      int64
	IdÉcole int64 `gomacro-sql-foreign:"École" gomacro-sql-on-delete:"CASCADE"`
	Prénom  string
}
