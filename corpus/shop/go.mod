module example.com/vs/shop

go 1.23
