package shop

import "time"

// Date only keeps year, month and day.
type Date time.Time

func NewDateFrom(t time.Time) Date {
	return Date(time.Date(t.Year(), t.Month(), t.Day(), 0, 0, 0, 0, time.UTC))
}

func (d Date) Time() time.Time { return time.Time(d) }

type Status int

const (
	Draft Status = iota
	Paid
	Shipped
	cancelled
)

type Tier string

const (
	Basic   Tier = "basic"
	Premium Tier = "premium"
	Deluxe  Tier = "de'luxe" // an apostrophe is a legal character of a string constant
	Legacy  Tier = "old\\school" // and so is a backslash
	Fan     Tier = "Badge"        // spelled like a table struct of the file
)

type Dimensions struct {
	W, H int
	D    uint8
	G    Grade
	rev  int // not exported: part of the composite all the same
}

// Grade is an integer enum that knows how to print itself.
type Grade int

const (
	Low Grade = iota
	Mid
	High
)

func (g Grade) String() string { return [...]string{"Low", "Mid", "High"}[g] }

type Labels []string

type Scores [3]int32

type Flags []bool

type Ratings []float64

type StatusLog []Status

type Attributes map[string]string

type Address struct {
	Street string
	City   string `json:"city"`
	Zip    int
	Tags   []string
}

type OptCustomer struct {
	Valid bool
	ID    IdCustomer
}
