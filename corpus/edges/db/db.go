// Package db has a two-letter name.
package db

type Key int64

type Row struct {
	Key  Key
	Name string
}
