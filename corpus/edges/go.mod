module example.com/vs/edges

go 1.23
