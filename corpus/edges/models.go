// Package edges: small legal shapes around enums, package names and pointers.
package edges

import "example.com/vs/edges/db"

// Pace has an unexported constant declared between exported ones.
type Pace int

const (
	Slow Pace = iota
	paceMark
	Quick
	Rapid
)

// Hue has an unexported constant that repeats the value of an exported one.
type Hue int

const (
	Red Hue = iota
	Green
	Blue
	plainHue = Green
)

// Axis declares two constants in one specification.
type Axis int

const (
	Horizontal, Vertical Axis = 1, 2
)

type Trip struct {
	Pace Pace
	Hue  Hue
	Axis Axis
	Row  db.Row
	Keys []db.Key
}

// Refs holds a pointer to a slice and a slice of pointers.
type Refs struct {
	A *[]int
	B []*int
}

// Doc embeds a pointer to a struct: it stays a pointer field, and has to be
// allocated before anything is stored through it.
type Base struct {
	ID   int
	Name string
}

type Doc struct {
	*Base
	Title string
}
