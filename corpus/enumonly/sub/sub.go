package sub

type Mode uint8

const (
	Off Mode = iota
	On
	Auto
)

type Pair struct {
	First, Second Mode
}
