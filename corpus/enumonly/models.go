// Package enumonly holds nothing but enums and structs of enums: no basic
// type is used as a field, so the helpers shared by all files stay empty.
package enumonly

import "example.com/vs/enumonly/sub"

type Color int

const (
	Red Color = iota
	Green
	Blue
)

type Flags struct {
	Main  Color
	Mode  sub.Mode
	Modes sub.Pair
}

type Both struct {
	A, B Flags
}
