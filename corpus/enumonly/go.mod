module example.com/vs/enumonly

go 1.23
