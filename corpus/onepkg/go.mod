module example.com/vs/onepkg

go 1.23
