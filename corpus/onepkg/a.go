// Package onepkg: two analysed files of one package; the struct of file a
// implements the union declared in file b.
package onepkg

type Circle struct {
	R float64
}

type Square struct {
	Side int
}

func (Circle) isShape() {}
func (Square) isShape() {}
