package onepkg

type Shape interface {
	isShape()
}

type Drawing struct {
	Title string
	Main  Shape
	All   ShapeList
}

type ShapeList []Shape
