package server

// filler 1
type Filler1 struct {
	A, B, C int
	Note string
}

func (f Filler1) Sum() int { return f.A + f.B + f.C }
