package server

// filler 3
type Filler3 struct {
	A, B, C int
	Note string
}

func (f Filler3) Sum() int { return f.A + f.B + f.C }
