package server

// filler 4
type Filler4 struct {
	A, B, C int
	Note string
}

func (f Filler4) Sum() int { return f.A + f.B + f.C }
