package server

// filler 2
type Filler2 struct {
	A, B, C int
	Note string
}

func (f Filler2) Sum() int { return f.A + f.B + f.C }
