module example.com/vs/routes2

go 1.23
