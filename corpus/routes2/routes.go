// Package server registers routes whose handlers are function literals; the
// package has several files.
package server

import "example.com/vs/routes2/echo"

type Ping struct {
	Seq int
}

type Pong struct {
	Seq  int
	Note string
}

func named(c echo.Context) error { return c.JSON(200, Pong{}) }

func setup(e *echo.Echo) {
	e.GET("/named", named)
	e.GET("/ping", func(c echo.Context) error {
		return c.JSON(200, Pong{})
	})
	e.POST("/echo", func(c echo.Context) error {
		var in Ping
		if err := c.Bind(&in); err != nil {
			return err
		}
		return c.JSON(200, Pong{Seq: in.Seq})
	})
}
