// Package server registers handlers of two packages that share their name,
// folds its paths from constants, and reads several kinds of query parameters
// in one assignment.
package server

import (
	catalog "example.com/vs/routes4/catalog/handlers"
	"example.com/vs/routes4/ct"
	"example.com/vs/routes4/echo"
	orders "example.com/vs/routes4/orders/handlers"
)

const (
	base     = "/storage"
	listPath = base + "/palettes/list"
	afterKey = "since"
)

type Invoice struct {
	Id     int64
	Amount int
}

func listInvoices(c echo.Context) error {
	after := c.QueryParam(afterKey)
	_ = after
	return c.JSON(200, []Invoice{})
}

func search(c echo.Context) error {
	q, strict, limit := c.QueryParam("q"), ct.QueryParamBool(c, "strict"), c.QueryParam("limit")
	page, err := ct.QueryParamInt64(c, "page")
	_, _, _, _, _ = q, strict, limit, page, err
	return c.JSON(200, []Invoice{})
}

func setup(e *echo.Echo) {
	e.GET(listPath, listInvoices)
	e.GET(base+"/search", search)
	e.GET("/articles", catalog.ListArticles)
	e.GET("/article", catalog.GetArticle)
	e.GET("/orders", orders.ListOrders)
	e.GET("/order", orders.GetOrder)
}
