// Package handlers (orders): same package name as catalog/handlers.
package handlers

import "example.com/vs/routes4/echo"

type Order struct {
	Id    int64
	Total int
}

func ListOrders(c echo.Context) error {
	return c.JSON(200, []Order{})
}

func GetOrder(c echo.Context) error {
	id := c.QueryParam("id")
	_ = id
	var out Order
	return c.JSON(200, out)
}
