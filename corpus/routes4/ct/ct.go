// Package ct holds typed query helpers.
package ct

import "example.com/vs/routes4/echo"

func QueryParamBool(c echo.Context, name string) bool { return c.QueryParam(name) == "true" }

func QueryParamInt64(c echo.Context, name string) (int64, error) { return 0, nil }
