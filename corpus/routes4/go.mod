module example.com/vs/routes4

go 1.23
