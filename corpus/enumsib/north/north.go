// Package north declares constants of a type of another package.
package north

import "example.com/vs/enumsib/kind"

const (
	Polar kind.Kind = iota + 1
	Boreal
)

const Extreme kind.Level = 9

type Station struct {
	Name string
	K    kind.Kind
}
