// Package south declares other constants of the same foreign type.
package south

import "example.com/vs/enumsib/kind"

const (
	Austral   kind.Kind = 10
	Antarctic kind.Kind = 20
	Tropic    kind.Kind = 30
)

const Abyss kind.Level = -9

type Base struct {
	Name string
	K    kind.Kind
}
