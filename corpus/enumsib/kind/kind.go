// Package kind declares a type without any constant of its own.
package kind

type Kind int

// Level has constants here and elsewhere.
type Level int

const (
	Low Level = iota
	High
)
