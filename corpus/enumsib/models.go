// Package enumsib: a named type whose constants are declared by sibling
// packages only, reached through several imports.
package enumsib

import (
	"example.com/vs/enumsib/kind"
	"example.com/vs/enumsib/north"
	"example.com/vs/enumsib/south"
)

type Expedition struct {
	Title string
	K     kind.Kind
	L     kind.Level
	From  north.Station
	To    south.Base
	Kinds []kind.Kind
}
