module example.com/vs/enumsib

go 1.23
