module example.com/vs/cyc5

go 1.23
