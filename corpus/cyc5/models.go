// Package cyc5 holds unions that are recursive through one another.
package cyc5

// Stmt and Expr are mutually recursive: a Block holds an Expr, a Call holds a
// Stmt; Nop and Lit are the ways out.
type Stmt interface {
	isStmt()
}

type Block struct {
	Value Expr
}

type Nop struct {
	N int
}

type Expr interface {
	isExpr()
}

type Call struct {
	Body Stmt
}

type Lit struct {
	N int
}

func (Block) isStmt() {}
func (Nop) isStmt()   {}
func (Call) isExpr()  {}
func (Lit) isExpr()   {}

// Outer reaches itself through an inner union whose two members share one
// struct: Alpha{W Inner}, Inner = First{S Shared} | Second{S Shared}, Shared{O Outer}.
type Outer interface {
	isOuter()
}

type Alpha struct {
	W Inner
}

type Beta struct {
	N int
}

type Inner interface {
	isInner()
}

type First struct {
	S Shared
}

type Second struct {
	S Shared
}

type Shared struct {
	O Outer
}

func (Alpha) isOuter()  {}
func (Beta) isOuter()   {}
func (First) isInner()  {}
func (Second) isInner() {}

// Program uses them as fields.
type Program struct {
	Main  Stmt
	Value Expr
	Root  Outer
}

// Rule has no leaf: every member holds it, directly or through a slice; the
// slices end the recursion.
type Rule interface {
	isRule()
}

type RuleList []Rule

type All struct {
	Rules RuleList
}

type Any struct {
	Rules RuleList
}

type Neg struct {
	R Rule
}

func (All) isRule() {}
func (Any) isRule() {}
func (Neg) isRule() {}

// Figure is made of two embedded interfaces and declares no method itself.
type Figure interface {
	Drawable
	Sized
}

type Drawable interface {
	isDrawable()
}

type Sized interface {
	isSized()
}

type Disc struct {
	R int
}

type Box struct {
	W, H int
}

func (Disc) isDrawable() {}
func (Disc) isSized()    {}
func (Box) isDrawable()  {}
func (Box) isSized()     {}

type Canvas struct {
	Main Figure
}

// Value has two different named maps of itself among its members, a named
// list, and a leaf that sorts first.
type Value interface {
	isValue()
}

type Atom struct {
	N int
}

type Dict map[string]Value

type Sparse map[int]Value

type Series []Value

func (Atom) isValue()   {}
func (Dict) isValue()   {}
func (Sparse) isValue() {}
func (Series) isValue() {}

type Holder struct {
	V Value
}
