package twotables

// gomacro:SQL ADD UNIQUE(Name)
// gomacro:SQL ADD UNIQUE(Code)
// gomacro:SQL ADD UNIQUE(Email)
// gomacro:SQL ADD UNIQUE(City, Street)
// gomacro:SQL ADD UNIQUE(Street, Zip)
type Client struct {
	Id     int64
	Name   string
	Code   string
	Email  string
	City   string
	Street string
	Zip    int
}
