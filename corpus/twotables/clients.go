package twotables

// gomacro:SQL ADD UNIQUE(Name)
type Client struct {
	Id   int64
	Name string
}
