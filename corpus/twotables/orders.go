// Package twotables: two model files of one package. The comment below names
// a column that happens to be spelled like the table struct of the other file.
package twotables

// gomacro:SQL ADD CONSTRAINT Client_positive CHECK (Client > 0)
// gomacro:QUERY TouchOrders UPDATE Order SET Note = $val$ WHERE Client = $sel$;
type Order struct {
	Id     int64
	Client int64
	Note   string
}
