module example.com/vs/twotables

go 1.23
