// Package kinds exercises every shape the random-data generator supports.
package kinds

import (
	"net/url"
	"time"

	altkinds "example.com/vs/kinds/alt/kinds"
	"example.com/vs/kinds/ext"
	"example.com/vs/kinds/unit"
)

// Hidden holds exported fields that JSON does not carry: random data fills
// them all the same, and their zero value would be ill-formed.
type Hidden struct {
	Name    string
	Preview Shape  `json:"-"`
	Start   Sparse `json:"-"`
	Inner   Sparse `gomacro:"ignore"`
}

// Boards holds arrays of arrays that are not square.
type Boards struct {
	Wide  [2][3]Sparse
	Tall  [3][2]bool
	Cells [300]Sparse
	Bits  [130]bool
}

// Doc has a field that shadows one of the struct it embeds; the embedded one
// is not to be filled.
type Doc struct {
	Kind DocKind
	Meta
}

type Meta struct {
	Kind   string `gomacro-data:"ignore"`
	Author string
	Tags   []string
}

type DocKind int

const (
	Memo DocKind = iota + 1
	Letter
	Invoice
)

// Request uses named types of standard packages whose paths sort after the
// module path.
type Request struct {
	Timeout time.Duration
	Query   url.Values
	Unit    unit.Unit
}

type Settings struct {
	ByLevel  map[Level]string
	ByMood   map[Mood]int
	ByUnit   map[unit.Unit]bool
	Flags    map[bool]int `json:"-" gomacro-data:"ignore"`
	Phase    Phase
	Phases   []Phase
	Grade    Grade
	Grades   [3]Grade
	Single   Single
	Sparse   Sparse
	Skipped  []int `gomacro-data:"ignore"`
	private  int
	Levels   []Level
	Pair     [2]Mood
	Deadline time.Time
	Birthday MyDate
	Amount   unit.Amount
	Tags     unit.Tags
	Ref      Opt[IdThing]
	Raw      []byte
	Grid     [2][3]int8
}

type Shape interface {
	isShape()
}

type Circle struct {
	R float64
}

type Rect struct {
	W, H  int
	Level Level
}

type Group struct {
	Name   string
	Shapes ShapeList
}

type ShapeList []Shape

type ShapeByName map[string]Shape

func (Circle) isShape() {}
func (Rect) isShape()   {}
func (Group) isShape()  {}

type Lonely interface {
	isLonely()
}

type Hermit struct {
	N uint16
}

func (Hermit) isLonely() {}

type Drawing struct {
	Base
	Main    Shape
	Others  ShapeList
	Named   ShapeByName
	Lonely  Lonely
	Layers  []Layer
	Stacks  map[string]ShapeList
	Setting Settings
}

type Base struct {
	Title string `json:"title"`
	Rank  int32
}

// Audited embeds a struct that is to be skipped as a whole.
type Audited struct {
	Stamp `gomacro-data:"ignore"`
	Count int
}

type Stamp struct {
	By  string
	Rev int
}

// Sprite embeds types that are not structs: a union, an enum without a zero
// constant and a named slice of another package. They stay ordinary fields.
type Sprite struct {
	Shape
	Sparse
	unit.Tags
	Name string
}

// Animal: Cat and Dog are members through the marker method they get from the
// struct they embed.
type Animal interface {
	isAnimal()
}

type AnimalBase struct {
	Legs int
}

func (AnimalBase) isAnimal() {}

type Cat struct {
	AnimalBase
	Name string
}

type Dog struct {
	AnimalBase
	Loud bool
}

type Herd []Animal

type Zoo struct {
	Star    Animal
	Animals Herd
}

// Tone has an unexported constant repeating an exported one.
type Tone int

const (
	Soft Tone = iota + 1
	Loud
	defaultTone = Soft
)

// Parcel uses an enum of a package that has the same name as this one, and a
// generic type whose argument lives in a package used for nothing else.
type Parcel struct {
	Tone   Tone
	Weight altkinds.Weight
	Owner  Handle[ext.Customer]
}

// Top3 embeds Mid3, which embeds Inner3: two levels of flattening.
type Top3 struct {
	Mid3
	Name string
}

type Mid3 struct {
	Inner3
	UpdatedBy string
}

type Inner3 struct {
	CreatedBy string
}

// SliceItem is a named slice called like the helper generated for []Item.
type SliceItem []Item

type Item struct {
	N int
}

type Bag struct {
	Items SliceItem
	Extra MapstringItem
}

type MapstringItem map[string]Item

// Order embeds a struct that holds a union and adds plain fields of its own.
type Order struct {
	Signed
	ID    int
	Lines []string
}

type Signed struct {
	By Shape
}

// Timeline holds many instants: whatever state the time helper keeps is
// exercised thousands of times in one process.
type Timeline struct {
	Stamps [600]Instant
	Days   [200]MyDate
}

type Instant struct {
	At time.Time
}

// Rating is an alias of an alias of an enum declared two packages away.
type Rating = unit.Rating

type Review struct {
	Text   string
	Rating Rating
	Others []Rating
}
