// Package ext is only ever used as a type argument.
package ext

type Customer struct {
	Name string
}
