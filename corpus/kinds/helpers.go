package kinds

import "time"

// Day is a date (the name contains "date" in MyDate below, not here: this one is a plain time)
type MyDate time.Time

func (d MyDate) MarshalJSON() ([]byte, error) { return time.Time(d).MarshalJSON() }

func (d *MyDate) UnmarshalJSON(b []byte) error { return (*time.Time)(d).UnmarshalJSON(b) }

type Level int

const (
	Low Level = iota
	Mid
	High
	levelCount // iota sentinel: must never be generated
)

// Grade has an exported alias: two names for one value.
type Grade int

const (
	Poor Grade = iota
	Fair
	Good
	DefaultGrade = Fair
)

// Phase has a sentinel that is explicitly not a member.
type Phase int

const (
	Start Phase = iota
	Middle
	End
)

const NoPhase Phase = -1 // gomacro:no-enum

type Mood string

const (
	Happy Mood = "happy"
	Sad   Mood = "sad"
)

type Sparse int16

const (
	S1 Sparse = 1
	S5 Sparse = 5
	S9 Sparse = 9
)

type Single int

const OnlyOne Single = 7

type IdThing int64

type Opt[T ~int64] struct {
	Id T
	Ok bool
}

// Layer holds a union and is declared outside the analysed file: it is only
// reached through anonymous containers of Drawing.
type Layer struct {
	Name string
	Top  Shape
}

// Handle refers to a T without holding one (declared outside the analysed
// file: the generators handle instantiations, not generic declarations).
type Handle[T any] struct {
	ID int64
}
