module example.com/vs/kinds

go 1.23
