// Package unit is the sub-package of the kinds corpus program.
package unit

import "example.com/vs/kinds/unit/deep"

type Unit uint8

const (
	Gram Unit = iota
	Litre
	Piece
	unitCount // sentinel, not exported
)

type Tags []string

type Amount struct {
	Value     float64
	Unit      Unit
	Precision deep.Precision
	Scales    [2]deep.Scale
	ByScale   map[deep.Scale]int
}

// Rating re-exports an enum of the package below.
type Rating = deep.Exactness
