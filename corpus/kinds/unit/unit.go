// Package unit is the sub-package of the kinds corpus program.
package unit

type Unit uint8

const (
	Gram Unit = iota
	Litre
	Piece
	unitCount // sentinel, not exported
)

type Tags []string

type Amount struct {
	Value float64
	Unit  Unit
}
