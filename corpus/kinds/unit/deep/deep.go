// Package deep is reached from the analysed package only through package unit.
package deep

type Precision int

const (
	Coarse Precision = iota
	Fine
	Exact
)

type Scale string

const (
	Metric   Scale = "metric"
	Imperial Scale = "imperial"
)
