// Package deep is reached from the analysed package only through package unit.
package deep

type Precision int

const (
	Coarse Precision = iota
	Fine
	Exact
)

type Scale string

const (
	Metric   Scale = "metric"
	Imperial Scale = "imperial"
)

// Exactness has no zero constant; it is reached from the root package through
// two aliases.
type Exactness int

const (
	Rough Exactness = iota + 1
	Close
	Sharp
)
