// Package kinds has the same name as the root package of the program: only
// its import path tells them apart.
package kinds

type Weight int

const (
	Light Weight = iota + 1
	Medium
	Heavy
)
