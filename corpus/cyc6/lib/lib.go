// Package lib: types of another package used by the recursive types of cyc6.
package lib

// Pair is generic: declared here, it holds whatever it is instantiated with.
type Pair[T any] struct {
	Left, Right T
}

type Op int

const (
	Plus Op = iota
	Minus
	Times
)

// Rate is an enum backed by a float, with constants that are not integers.
type Rate float64

const (
	Reduced  Rate = 0.055
	Standard Rate = 0.2
	Luxury   Rate = 1.5
	Free     Rate = 0
)

// List is recursive through a pointer only.
type List struct {
	Value int
	Next  *List
}
