module example.com/vs/cyc6

go 1.23
