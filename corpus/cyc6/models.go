// Package cyc6: recursion that leaves the package and comes back.
package cyc6

import "example.com/vs/cyc6/lib"

// Expr is a recursive union.
type Expr interface{ isExpr() }

func (Binary) isExpr() {}
func (Call) isExpr()   {}
func (Number) isExpr() {}

// Binary holds the union again, through a generic struct of another package.
type Binary struct {
	Op   lib.Op
	Args lib.Pair[Expr]
}

type Params []Expr

// Call is a way out of the recursion: slices are bounded on their own.
type Call struct {
	Name   string
	Params Params
}

type Number struct {
	V float64
}

type Formula struct {
	Root Expr
	Vars Params
}

// Term is a union whose first member that does not hold it directly leads back
// to it through a pointer to the struct that holds it.
type Term interface{ isTerm() }

func (Both) isTerm() {}
func (Ref) isTerm()  {}
func (Unit) isTerm() {}

type Both struct {
	L, R Term
}

type Ref struct {
	To *Scope
}

type Unit struct {
	V int
}

type Scope struct {
	Name string
	Body Term
}

type Program struct {
	Main   Scope
	Others map[string]*Scope
	Free   lib.List
	Count  *int
}

// Tariffs is a named container of a float enum of another package.
type Tariffs []lib.Rate

type Offer struct {
	Base  lib.Rate
	Steps Tariffs
	ByOp  map[lib.Op]lib.Rate
}

// Tree is recursive through a fixed array of pointers: the pointers bound it.
type Tree struct {
	Label string
	Kids  [2]*Tree
}

// Node is a union recursive through a fixed array of length one, held by its
// first member in name order: Leaf is the only way out.
type Node interface{ isNode() }

func (Box) isNode()  {}
func (Leaf) isNode() {}

type One [1]Node

type Box struct {
	Inner One
}

type Leaf struct {
	V int
}

type Crate struct {
	Top  Node
	Solo One
}
