module example.com/vs/twounions

go 1.23
