// Package twounions: a struct implementing two exported unions that are
// declared in different files, and an iota enum with an unexported alias
// constant in the middle of its members.
package twounions

type Zebra interface {
	isZebra()
}

type Both struct {
	N    int
	Prio Prio
}

type OnlyZebra struct {
	S string
}

func (Both) isZebra()      {}
func (OnlyZebra) isZebra() {}
func (Both) isApple()      {}

type Prio int

const (
	Red Prio = iota
	Green
	Blue
	fallback = Green // sorts between Green and Blue once the members are ordered by value
)

type Holder struct {
	Z Zebra
	A Apple
}
