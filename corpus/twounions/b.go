package twounions

// Apple sorts before Zebra by name but is declared in the second file.
type Apple interface {
	isApple()
}

type OnlyApple struct {
	F float64
}

func (OnlyApple) isApple() {}

type Basket struct {
	Apples AppleList
	Prio   Prio
}

type AppleList []Apple
