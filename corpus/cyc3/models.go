// Package cyc3 holds recursion that does not pass through a slice or a map:
// a union member holding the union directly, and a pointer to the type itself.
package cyc3

type Expr interface {
	isExpr()
}

type Lit struct {
	V int
}

// Neg holds its operand directly.
type Neg struct {
	Arg Expr
}

// Pair holds two operands directly.
type Pair struct {
	Left, Right Expr
}

func (Lit) isExpr()  {}
func (Neg) isExpr()  {}
func (Pair) isExpr() {}

type Formula struct {
	Name string
	Root Expr
}

// List is recursive through a pointer.
type List struct {
	V    int
	Next *List
}

// PNode is recursive through a pointer and holds components whose zero value
// is ill-formed: an enum without a zero constant and a union.
type PNode struct {
	Rank Rank
	Of   Expr
	Next *PNode
}

type Rank int

const (
	First Rank = iota + 1
	Second
	Third
)

// Chain reaches Link - a struct holding a union - first through a pointer.
type Chain struct {
	Head *Link
}

type Link struct {
	Value Expr
	Next  *Link
}
