module example.com/vs/cyc3

go 1.23
