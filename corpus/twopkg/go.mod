module example.com/vs/twopkg

go 1.23
