// Package scene reaches the union (and through it the structs) from another package.
package scene

import "example.com/vs/twopkg/geometry"

type Scene struct {
	Name string
	Main geometry.Shape
	All  Shapes
}

type Shapes []geometry.Shape
