// Package geometry: the structs are entry points of this file, the union
// they implement is declared in another file of the package.
package geometry

type Circle struct {
	R float64
}

type Rect struct {
	W, H float64
}
