package geometry

type Shape interface {
	isShape()
}

func (Circle) isShape() {}
func (Rect) isShape()   {}
