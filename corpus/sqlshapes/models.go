// Package sqlshapes: tables that reference each other, JSON columns whose
// types get the same validation function name, tables named X and Xs.
package sqlshapes

import (
	"example.com/vs/sqlshapes/contacts"
	"example.com/vs/sqlshapes/contracts"
)

type IdClient int64

type IdAccount int64

// Client and Account reference each other.
type Client struct {
	Id          IdClient
	Name        string
	MainAccount IdAccount
}

type Account struct {
	Id       IdAccount
	IdClient IdClient
	Balance  int
}

// Ledger depends on both. Its custom query names placeholders that are not
// compared to a column with "=": whatever the generator makes of them, it makes
// the same thing every time.
// gomacro:QUERY TrimLedgers DELETE FROM Ledger WHERE IdClient > $lo$ AND IdClient < $hi$ AND IdAccount != $skip$ AND Id = $id$ AND Id >= $floor$;
type Ledger struct {
	Id        int64
	IdClient  IdClient
	IdAccount IdAccount
}

// Deal stores two different types called Party and two instances of Measure as jsonb.
type Deal struct {
	Id     int64
	Buyer  contacts.Party
	Seller contracts.Party
	Weight Measure[float64]
	Label  Measure[string]
}

// Setting and Settings: the SQL name of the first is the lower-cased Go name of the second.
type Setting struct {
	Id    int64
	Key   string
	Value string
}

// gomacro:SQL ADD FOREIGN KEY (IdSetting) REFERENCES settings
type Settings struct {
	Id        int64
	IdSetting int64
	Owner     string
}

// two tables declared on one line, each with a foreign key: their constraints
// are emitted in source order
type RefA struct { Id int64; IdClient IdClient }; type RefB struct { Id int64; IdAccount IdAccount }
