module example.com/vs/sqlshapes

go 1.23
