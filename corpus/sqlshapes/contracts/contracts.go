// Package contracts: its name shares its first letters with package contacts.
package contracts

type Party struct {
	Company string
	Shares  int
}
