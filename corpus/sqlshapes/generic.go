package sqlshapes

// Measure is declared outside the analysed file: the generators handle
// instantiations of generic types, not their declarations.
type Measure[T any] struct {
	Value T
	Unit  string
}
