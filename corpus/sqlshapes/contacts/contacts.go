// Package contacts: its name shares its first letters with package contracts.
package contacts

type Party struct {
	Name  string
	Phone string
}
