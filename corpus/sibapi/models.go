// Package sibapi uses the enums of a sibling package (not a sub-package):
// inside the batch module both are packages of example.com/vs.
package sibapi

import "example.com/vs/sibkinds"

type Podium struct {
	First  sibkinds.Medal
	Others []sibkinds.Medal
	Prize  sibkinds.Price
	ByName map[string]sibkinds.Currency
}
