module example.com/vs/sibapi

go 1.23
