// Package beta: its import path flattens to the same name as api/v1_beta.
package beta

type Response struct {
	Code int
	Body string
}

type Status string

const (
	Ok     Status = "ok"
	Failed Status = "failed"
)
