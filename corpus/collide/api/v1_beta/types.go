// Package v1_beta: its import path flattens to the same name as api_v1/beta.
package v1_beta

type Request struct {
	Path  string
	Retry int
}

type Verb int

const (
	Get Verb = iota
	Post
)
