module example.com/vs/collide

go 1.23
