// Package collide reaches two packages whose import paths become equal once
// the slashes are replaced by underscores.
package collide

import (
	"example.com/vs/collide/api/v1_beta"
	"example.com/vs/collide/api_v1/beta"
)

type Exchange struct {
	Req    v1_beta.Request
	Verb   v1_beta.Verb
	Resp   beta.Response
	Status beta.Status
	Note   string
}
