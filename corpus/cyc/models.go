// Package cyc holds recursive type graphs: the generated random-data
// functions must still terminate on them.
package cyc

// Tree is directly recursive through a slice.
type Tree struct {
	Label    string
	Children []Tree
}

// Dir is recursive through a map.
type Dir struct {
	Name    string
	Entries map[string]Dir
}

// Expr is recursive through a union: a Binary node holds two Exprs.
type Expr interface {
	isExpr()
}

type Lit struct {
	V int
}

type Binary struct {
	Op   Op
	Args ExprList
}

type ExprList []Expr

func (Lit) isExpr()    {}
func (Binary) isExpr() {}

type Op uint8

const (
	Add Op = iota
	Mul
)

// Ping and Pong are mutually recursive.
type Ping struct {
	N     int
	Pongs []Pong
}

type Pong struct {
	Pings []Ping
}

// Plain has no cycle: it must keep working next to the recursive ones.
type Plain struct {
	A  int
	Op Op
	L  []string
}

// KNode is recursive through a map keyed by an enum.
type KNode struct {
	Label    string
	Children map[Op]KNode
}
