module example.com/vs/cyc

go 1.23
