// Package enumfiles declares the constants of one enum in two files.
package enumfiles

type Hue string

const (
	HRed  Hue = "r"
	HBlue Hue = "b"
)

type Paint struct {
	Hue  Hue
	Kind Kind
}

type Kind int

const (
	Matte Kind = 3
	Gloss Kind = 1
)
