package enumfiles

const (
	HGreen Hue = "g"
	HAlpha Hue = "a"
)

const Satin Kind = 2

type Can struct {
	Paint Paint
	Ml    int
}
