module example.com/vs/enumfiles

go 1.23
