// Package casetie declares names that differ only by the case of a letter.
package casetie

type String string

type Int int

type Item struct {
	Name  String
	Label string
	Count Int
	Size  int
	Sub   item
	Other ITEM
}

type item struct {
	N int
}

type ITEM struct {
	S string
}

// two declarations on one line
type P1 struct{ X int }; type P2 struct{ Y string }

type ( Q1 int; Q2 string )
