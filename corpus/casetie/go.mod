module example.com/vs/casetie

go 1.23
