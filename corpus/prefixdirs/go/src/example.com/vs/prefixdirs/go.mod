module example.com/vs/prefixdirs

go 1.23
