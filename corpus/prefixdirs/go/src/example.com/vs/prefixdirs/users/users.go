package users

import "example.com/vs/prefixdirs/user"

type Group struct {
	Title   string
	Members []user.User
}
