// Package user sits next to package users: one directory name is a prefix of
// the other. The whole program lives below a directory called go/src.
package user

type User struct {
	Name string
	Age  int
}
