package kindclash

type Sheet interface {
	isSheet()
}

type Page struct {
	N int
}

func (Circle) isSheet() {}
func (Page) isSheet()   {}

type Book struct {
	Cover Sheet
}
