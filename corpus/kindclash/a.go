// Package kindclash: two unions whose names start with the same two letters
// share a member; they are declared in two files.
package kindclash

type Shape interface {
	isShape()
}

type Circle struct {
	R int
}

type Square struct {
	Side int
}

func (Circle) isShape() {}
func (Square) isShape() {}

type Drawing struct {
	Main Shape
}
