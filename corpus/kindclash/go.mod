module example.com/vs/kindclash

go 1.23
