module example.com/vs/routes3

go 1.23
