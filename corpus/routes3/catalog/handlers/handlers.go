// Package handlers (catalog): same package name as orders/handlers.
package handlers

import "example.com/vs/routes3/echo"

type Article struct {
	Sku   string
	Price int
}

func ListArticles(c echo.Context) error {
	out := []Article{}
	return c.JSON(200, out)
}

func GetArticle(c echo.Context) error {
	sku := c.QueryParam("sku")
	return c.JSON(200, Article{Sku: sku})
}
