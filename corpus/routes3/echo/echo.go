// Package echo is a stand-in for the echo http framework.
package echo

type Context interface {
	Bind(interface{}) error
	JSON(int, interface{}) error
	QueryParam(string) string
}

type Echo struct{}

func (Echo) GET(string, func(Context) error)    {}
func (Echo) POST(string, func(Context) error)   {}
func (Echo) PUT(string, func(Context) error)    {}
func (Echo) DELETE(string, func(Context) error) {}
