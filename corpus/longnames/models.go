// Package longnames has JSON columns whose nested types give validation
// functions with very long names (PostgreSQL identifiers stop at 63 bytes).
package longnames

type ConfigurationEntry struct {
	Key     string
	Value   string
	Enabled bool
}

type DeploymentEnvironmentKind int

const (
	ProductionEnvironment DeploymentEnvironmentKind = iota
	StagingEnvironment
	DevelopmentEnvironment
)

// Deployment is a table.
type Deployment struct {
	Id       int64
	Name     string
	Settings map[string][][]map[string][]ConfigurationEntry
	Matrix   [][]map[string]map[string][]DeploymentEnvironmentKind
	Fallback map[string]map[string]map[string][]ConfigurationEntry
}

// Rollout is a second table sharing the long types.
type Rollout struct {
	Id           int64
	IdDeployment int64 `gomacro-sql-foreign:"Deployment" gomacro-sql-on-delete:"CASCADE"`
	Overrides    map[string][][]map[string][]ConfigurationEntry
}
