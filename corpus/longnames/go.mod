module example.com/vs/longnames

go 1.23
