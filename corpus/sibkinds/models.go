// Package sibkinds is a sibling of sibapi: both sit directly below the module
// root, neither is a sub-package of the other.
package sibkinds

type Medal int

const (
	Bronze Medal = iota + 1
	Silver
	Gold
)

type Currency string

const (
	Euro Currency = "EUR"
	Yen  Currency = "JPY"
)

type Price struct {
	Amount   int
	Currency Currency
}
