module example.com/vs/sibkinds

go 1.23
