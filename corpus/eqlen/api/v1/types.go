// Package v1: its import path is as long as that of package models.
package v1

type Request struct {
	Path string
	Code int
}
