module example.com/vs/eqlen

go 1.23
