// Package models is analysed; it and api/v1 are the two shortest packages of
// the program, of equal length, and there is no type in a package above them.
package models

import v1 "example.com/vs/eqlen/api/v1"

type Call struct {
	Name string
	Req  v1.Request
}

type Log struct {
	Calls []Call
}
