// Package cyc4 holds recursive unions whose only leaf comes last in name
// order, with the interface declared before and after its members, and an
// embedded struct that refers back to its embedder.
package cyc4

// Pairing is analysed first and shared by two members of Term: both reach the
// union through the same struct node.
type Pairing struct {
	Left, Right Term
}

type Plus struct {
	Ops Pairing
}

type Times struct {
	Ops Pairing
}

type Unit struct {
	V int
}

type Term interface {
	isTerm()
}

func (Plus) isTerm()  {}
func (Times) isTerm() {}
func (Unit) isTerm()  {}

// Formula is declared before its members; Add and Mul hold it (directly and
// through a struct), Num is the only way out.
type Formula interface {
	isFormula()
}

type Add struct {
	L, R Formula
}

type Mul struct {
	Ops Operands
}

type Num struct {
	V int
}

type Operands struct {
	Left, Right Formula
}

func (Add) isFormula() {}
func (Mul) isFormula() {}
func (Num) isFormula() {}

// Sheet uses the union as a field.
type Sheet struct {
	Title string
	Cell  Formula
}

// the same shape with the members declared before the interface
type And struct {
	A, B Cond
}

type Not struct {
	C Cond
}

type Var struct {
	Name string
}

type Cond interface {
	isCond()
}

func (And) isCond() {}
func (Not) isCond() {}
func (Var) isCond() {}

// Base is analysed before its embedder and refers back to it.
type Base struct {
	X    int
	Back []Outer
}

type Outer struct {
	Base
	Y int
}

// Node: the member Leaf holds the union only through a field JSON does not
// carry; random data fills that field all the same, so Leaf is no way out.
type Node interface {
	isNode()
}

type Bin struct {
	L, R Node
}

type Leaf struct {
	V      int
	Origin Node `json:"-"`
}

type Inv struct {
	X Node
}

type Sym struct {
	Name string
}

func (Bin) isNode()  {}
func (Leaf) isNode() {}
func (Inv) isNode()  {}
func (Sym) isNode()  {}

// Audit is analysed before Document, refers back to it, and is embedded there
// with the opt-out: none of its fields may be filled inside a Document.
type Audit struct {
	Author   string
	Revision int
	History  []Document
}

type Document struct {
	Audit `gomacro-data:"ignore"`
	Title string
}
