module example.com/vs/cyc4

go 1.23
