// Package cyc2 holds recursive named containers: no struct on the cycle.
// (Only the random-data check uses it: the SQL generator's typeID recurses
// without bound on these types and dies with a stack overflow, which is
// another property's business.)
package cyc2

type Nested []Nested

type Forest map[string]Forest

type Holder struct {
	N Nested
	F Forest
}
