module example.com/vs/cyc2

go 1.23
