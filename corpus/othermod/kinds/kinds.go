// Package kinds of a module whose path starts with other elements than the
// rest of the corpus.
package kinds

type Kind int

const (
	Plain Kind = iota
	Fancy
)

type Shade string

const (
	Dark  Shade = "dark"
	Light Shade = "light"
)
