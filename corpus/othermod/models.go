package app

import "demo.org/app/kinds"

// gomacro:SQL ADD UNIQUE(Name)
type Product struct {
	Id    int64
	Name  string
	Kind  kinds.Kind
	Shade kinds.Shade
}
