module demo.org/app

go 1.23
