module example.com/vs/samename

go 1.23
