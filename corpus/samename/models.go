// Package samename: the placeholder #[Kind.A] must resolve to this package's
// Kind, although another analysed type is called Kind too.
package samename

import (
	"time"

	"example.com/vs/samename/other"
)

type Kind int

const (
	A Kind = 1
	B Kind = 2
)

// gomacro:SQL ADD CHECK (K = #[Kind.A] OR K = #[Kind.B])
// gomacro:QUERY MarkItems UPDATE Item SET Note = $val$ WHERE K = #[Kind.B] AND Name = $sel$;
type Item struct {
	Id      int64
	Name    string
	Note    string
	K       Kind
	Foreign other.Kind
	Seen    time.Time
	guard   Kind `gomacro-sql-guard:"#[Kind.A]"`
}
