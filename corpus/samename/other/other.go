// Package other declares an enum whose local name also exists in the analysed package.
package other

type Kind int

const (
	Alpha Kind = 10
	Beta  Kind = 20
)
