module example.com/vs/enumsplit

go 1.23
