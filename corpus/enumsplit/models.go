// Package palette imports both the package defining an enum and a package
// declaring extra constants of it.
package palette

import (
	"example.com/vs/enumsplit/colors"
	"example.com/vs/enumsplit/extra"
)

type Palette struct {
	Id      int64
	Primary colors.Color
	Accent  extra.Swatch
	All     []colors.Color
}
