// Package extra declares further constants of an enum type it does not own.
package extra

import "example.com/vs/enumsplit/colors"

const (
	Amber colors.Color = 10
	Zinc  colors.Color = 11
)

type Swatch struct {
	Main colors.Color
}
