// Package colors defines the enum type.
package colors

type Color int

const (
	Red Color = iota
	Green
	Blue
)
