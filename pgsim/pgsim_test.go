package pgsim

import (
	"database/sql"
	"testing"
)

const schema = `
-- header
CREATE TYPE Composite AS (A integer, B smallint, C integer);
	CREATE TABLE items (
		Id serial PRIMARY KEY,
	Title text NOT NULL,
	Flow integer  CHECK (Flow IN (0, 1, 2, 4)) NOT NULL,
	F integer[]  CHECK (array_length(F, 1) = 3) NOT NULL,
	Tags text[] ,
	Cp Composite NOT NULL,
	Data jsonb NOT NULL,
	Opt integer ,
	guard smallint  CHECK (guard IN (0, 1, 2)) NOT NULL,
	Deadline timestamp (0) with time zone NOT NULL
	);
	CREATE TABLE links (
		IdItem integer NOT NULL,
		Note text NOT NULL
	);
-- constraints
ALTER TABLE links ADD FOREIGN KEY(IdItem) REFERENCES items ON DELETE CASCADE;
ALTER TABLE items ALTER COLUMN guard SET DEFAULT 0 /* LocalEnum.A */;
ALTER TABLE items ADD CHECK(guard = 0 /* LocalEnum.A */);
ALTER TABLE links ADD UNIQUE(IdItem, Note);
	CREATE OR REPLACE FUNCTION gomacro_validate_json_x (data jsonb)
		RETURNS boolean
		AS $$
	BEGIN
		IF jsonb_typeof(data) != 'array' THEN RETURN FALSE; END IF;
		RETURN TRUE;
	END;
	$$
	LANGUAGE 'plpgsql'
	IMMUTABLE;
ALTER TABLE items ADD CONSTRAINT Data_gomacro CHECK (gomacro_validate_json_x(Data));
`

func TestBasic(t *testing.T) {
	db := NewDB()
	if err := db.ExecScript(schema); err != nil {
		t.Fatal(err)
	}
	srv := NewServer(db)
	sdb := srv.Open()
	var id int64
	var title string
	var f, cp, tags []byte
	err := sdb.QueryRow(`INSERT INTO items (title, flow, f, tags, cp, data, opt, deadline) VALUES ($1,$2,$3,$4,$5,$6,$7,$8) RETURNING id, title, f, cp, tags;`,
		"hello", 2, "{1,2,3}", `{"a b","c"}`, []byte("(1, 2, 3)"), `{"x":1}`, nil, "2020-01-02T03:04:05Z").Scan(&id, &title, &f, &cp, &tags)
	if err != nil {
		t.Fatal(err)
	}
	if id != 1 || title != "hello" || string(f) != "{1,2,3}" || string(cp) != "(1,2,3)" || string(tags) != `{"a b",c}` {
		t.Fatalf("got %d %q %s %s %s", id, title, f, cp, tags)
	}
	if _, err := sdb.Exec(`INSERT INTO links (iditem, note) VALUES ($1, $2)`, 1, "n"); err != nil {
		t.Fatal(err)
	}
	if _, err := sdb.Exec(`INSERT INTO links (iditem, note) VALUES ($1, $2)`, 1, "n"); err == nil {
		t.Fatal("unique violation expected")
	}
	if _, err := sdb.Exec(`INSERT INTO links (iditem, note) VALUES ($1, $2)`, 7, "n"); err == nil {
		t.Fatal("fk violation expected")
	}
	if _, err := sdb.Exec(`INSERT INTO links (iditem, nope) VALUES ($1, $2)`, 1, "x"); err == nil {
		t.Fatal("unknown column expected")
	}
	if _, err := sdb.Exec(`SELECT id FROM items WHERE id = $2`, 1); err == nil {
		t.Fatal("placeholder audit expected")
	}
	rows, err := sdb.Query(`SELECT iditem, note FROM links WHERE iditem = ANY($1)`, "{1,2}")
	if err != nil {
		t.Fatal(err)
	}
	n := 0
	for rows.Next() {
		n++
	}
	if n != 1 {
		t.Fatal(n)
	}
	var got sql.NullInt64
	if err := sdb.QueryRow(`UPDATE items SET (title, opt) = ($1, $2) WHERE id = $3 RETURNING opt;`, "t2", 5, 1).Scan(&got); err != nil || got.Int64 != 5 {
		t.Fatal(err, got)
	}
	tx, _ := sdb.Begin()
	st, err := tx.Prepare(`COPY "links" ("iditem", "note") FROM STDIN`)
	if err != nil {
		t.Fatal(err)
	}
	st.Exec(1, "a")
	st.Exec(1, "b")
	if _, err := st.Exec(); err != nil {
		t.Fatal(err)
	}
	st.Close()
	tx.Rollback()
	if db.RowCount("links") != 1 {
		t.Fatal(db.RowCount("links"))
	}
	if _, err := sdb.Exec(`DELETE FROM items WHERE id = $1`, 1); err != nil {
		t.Fatal(err)
	}
	if db.RowCount("links") != 0 {
		t.Fatal("cascade")
	}
}

func mustExec(t *testing.T, db *DB, sql string, args ...any) *Result {
	t.Helper()
	r, _, err := db.Exec(sql, args)
	if err != nil {
		t.Fatalf("%s: %v", sql, err)
	}
	return r
}

func wantErr(t *testing.T, db *DB, class, sql string, args ...any) {
	t.Helper()
	_, _, err := db.Exec(sql, args)
	if err == nil || err.Class != class {
		t.Fatalf("%s: want %s error, got %v", sql, class, err)
	}
}

// Referential actions: cascade closure first, then SET NULL, then the
// no-action check - independent of the order in which constraints were added.
func TestReferentialActions(t *testing.T) {
	for _, order := range [][]string{
		{"ALTER TABLE kids ADD FOREIGN KEY(a) REFERENCES parents ON DELETE CASCADE", "ALTER TABLE kids ADD FOREIGN KEY(b) REFERENCES parents"},
		{"ALTER TABLE kids ADD FOREIGN KEY(b) REFERENCES parents", "ALTER TABLE kids ADD FOREIGN KEY(a) REFERENCES parents ON DELETE CASCADE"},
	} {
		db := NewDB()
		if err := db.ExecScript(`CREATE TABLE parents (id serial PRIMARY KEY, n text NOT NULL);
			CREATE TABLE kids (id serial PRIMARY KEY, a integer NOT NULL, b integer, c integer);
			ALTER TABLE kids ADD FOREIGN KEY(c) REFERENCES parents ON DELETE SET NULL;` + order[0] + ";" + order[1] + ";"); err != nil {
			t.Fatal(err)
		}
		mustExec(t, db, "INSERT INTO parents (n) VALUES ($1)", "p1")
		mustExec(t, db, "INSERT INTO parents (n) VALUES ($1)", "p2")
		// kid 1 references p1 twice (cascade + no action): goes with the cascade
		mustExec(t, db, "INSERT INTO kids (a, b, c) VALUES (1, 1, 2)")
		// kid 2 references p2 by cascade and p1 by set null
		mustExec(t, db, "INSERT INTO kids (a, b, c) VALUES (2, NULL, 1)")
		mustExec(t, db, "DELETE FROM parents WHERE id = $1", int64(1))
		if db.RowCount("kids") != 1 {
			t.Fatalf("kids: %d", db.RowCount("kids"))
		}
		r := mustExec(t, db, "SELECT c FROM kids WHERE id = 2")
		if len(r.Rows) != 1 || r.Rows[0][0] != nil {
			t.Fatalf("set null: %v", r.Rows)
		}
		// a surviving no-action reference refuses the delete and leaves everything as it was
		mustExec(t, db, "INSERT INTO kids (a, b, c) VALUES (2, 2, NULL)")
		mustExec(t, db, "INSERT INTO parents (n) VALUES ($1)", "p3")
		mustExec(t, db, "UPDATE kids SET a = 3 WHERE id = 3")
		wantErr(t, db, "constraint", "DELETE FROM parents WHERE id = 2")
		if db.RowCount("parents") != 2 || db.RowCount("kids") != 2 {
			t.Fatalf("refused delete changed something: %d %d", db.RowCount("parents"), db.RowCount("kids"))
		}
	}
}

func TestTypingAndAudit(t *testing.T) {
	db := NewDB()
	if err := db.ExecScript(`CREATE TABLE t (Id serial PRIMARY KEY, S smallint NOT NULL, R real NOT NULL, D date NOT NULL, T timestamp (0) with time zone NOT NULL, A text[], B bytea NOT NULL);`); err != nil {
		t.Fatal(err)
	}
	wantErr(t, db, "type", "INSERT INTO t (s, r, d, t, b) VALUES ($1, 1, '2020-01-01', '2020-01-01T00:00:00Z', 'x')", int64(40000))
	wantErr(t, db, "undefined", "SELECT nope FROM t")
	wantErr(t, db, "undefined", "SELECT id FROM nope")
	wantErr(t, db, "undefined", "SELECT id FROM t WHERE nofunc(id)")
	wantErr(t, db, "params", "SELECT id FROM t WHERE id = $1 AND s = $3", int64(1), int64(2))
	wantErr(t, db, "params", "SELECT id FROM t WHERE id = $1", int64(1), int64(2))
	wantErr(t, db, "syntax", "SELEC id FROM t")
	// quoted identifiers are exact, unquoted ones fold to lower case
	wantErr(t, db, "undefined", `SELECT "Id" FROM t`)
	mustExec(t, db, `SELECT "id", ID, Id FROM T`)
	r := mustExec(t, db, "INSERT INTO t (s, r, d, t, a, b) VALUES ($1, $2, $3, $4, $5, $6) RETURNING r, d, t, a", int64(-32768), 0.1, "2021-05-06T23:59:59+02:00", "2021-05-06T23:59:59.6Z", `{"a,b",NULL,"NULL",""}`, []byte{0, 1})
	if got := textOf(r.Rows[0][0], r.Types[0]); got != "0.1" {
		t.Fatalf("real: %s", got)
	}
	if got := textOf(r.Rows[0][1], r.Types[1]); got != "2021-05-06" {
		t.Fatalf("date: %s", got)
	}
	if got := textOf(r.Rows[0][2], r.Types[2]); got != "2021-05-07 00:00:00Z" {
		t.Fatalf("timestamp(0) rounds: %s", got)
	}
	if got := textOf(r.Rows[0][3], r.Types[3]); got != `{"a,b",NULL,"NULL",""}` {
		t.Fatalf("text[]: %s", got)
	}
	// a failing statement leaves no trace
	wantErr(t, db, "constraint", "UPDATE t SET s = NULL")
	if db.RowCount("t") != 1 {
		t.Fatal("rows")
	}
	// 3-valued logic
	r = mustExec(t, db, "SELECT id FROM t WHERE a IS NULL OR NOT (s = $1)", int64(5))
	if len(r.Rows) != 1 {
		t.Fatal("3vl")
	}
}

func TestTrailingCommaIsInvalid(t *testing.T) {
	for _, q := range []string{
		"INSERT INTO t (a, b, ) VALUES ($1, $2, ) RETURNING a",
		"INSERT INTO t (a, b) VALUES ($1, $2, )",
		"SELECT a, b, FROM t",
		"UPDATE t SET (a, b, ) = ROW($1, $2) WHERE a = $3",
		"SELECT a FROM t WHERE a IN (1,,2)",
		"INSERT INTO t (, a) VALUES ($1)",
	} {
		_, err := parseStatement(q)
		if err == nil || err.Class != "invalid" {
			t.Errorf("%s: got %v, want class invalid", q, err)
		}
	}
	if _, err := parseStatement("SELECT a, b FROM t WHERE a IN (1, 2)"); err != nil {
		t.Error(err)
	}
}

func TestIdentifierFoldingIsASCIIOnly(t *testing.T) {
	db := NewDB()
	if err := db.ExecScript("CREATE TABLE T (Id serial PRIMARY KEY, Élan integer NOT NULL);"); err != nil {
		t.Fatal(err)
	}
	if _, _, err := db.Exec("INSERT INTO t (ÉLAN) VALUES ($1)", []any{int64(1)}); err != nil {
		t.Error("ÉLAN folds to Élan (ASCII letters fold, É stays):", err)
	}
	if _, _, err := db.Exec("INSERT INTO t (élan) VALUES ($1)", []any{int64(1)}); err == nil {
		t.Error("élan is not Élan")
	}
	if _, _, err := db.Exec("INSERT INTO T (Élan) VALUES ($1)", []any{int64(1)}); err != nil {
		t.Error(err)
	}
}

func TestDistinctFromAndDefaultValues(t *testing.T) {
	db := NewDB()
	if err := db.ExecScript("CREATE TABLE t (id serial PRIMARY KEY, a integer, b text NOT NULL DEFAULT 'x');"); err != nil {
		t.Fatal(err)
	}
	if _, _, err := db.Exec("INSERT INTO t (id, a, b) VALUES (DEFAULT, $1, DEFAULT) RETURNING id, a, b", []any{nil}); err != nil {
		t.Fatal(err)
	}
	if _, _, err := db.Exec("INSERT INTO t (id, a, b) VALUES (DEFAULT, $1, $2)", []any{int64(3), "y"}); err != nil {
		t.Fatal(err)
	}
	for q, want := range map[string]int{
		"SELECT id FROM t WHERE a IS NOT DISTINCT FROM $1": 1,
		"SELECT id FROM t WHERE a IS DISTINCT FROM $1":     1,
	} {
		for _, arg := range []any{nil, int64(3)} {
			res, _, err := db.Exec(q, []any{arg})
			if err != nil {
				t.Fatal(q, err)
			}
			if len(res.Rows) != want {
				t.Errorf("%s with %v: %d rows, want %d", q, arg, len(res.Rows), want)
			}
		}
	}
	res, _, _ := db.Exec("SELECT b FROM t WHERE a IS NULL", nil)
	if len(res.Rows) != 1 || res.Rows[0][0] != "x" {
		t.Errorf("DEFAULT in VALUES: got %v", res.Rows)
	}
}

// TestStatementVariants: valid spellings the generated code does not use today.

func TestStatementVariants(t *testing.T) {
	db := NewDB()
	schema := []string{
		"CREATE TABLE IF NOT EXISTS a (id serial PRIMARY KEY, n int NOT NULL, s varchar NOT NULL, k int4, note text NULL);",
		"CREATE TABLE b (id integer GENERATED BY DEFAULT AS IDENTITY PRIMARY KEY, ida integer NOT NULL REFERENCES a (id) ON DELETE CASCADE, v smallint NOT NULL CHECK (v IN (0,1)));",
		"CREATE TABLE public.c (id serial PRIMARY KEY, x integer NOT NULL);",
		"ALTER TABLE ONLY a ADD CONSTRAINT a_n_unique UNIQUE (n);",
	}
	for _, q := range schema {
		if err := db.ExecScript(q); err != nil {
			t.Errorf("SCHEMA %s: %v", q, err)
		}
	}
	stmts := []struct {
		q    string
		args []any
	}{
		{"INSERT INTO a (n, s) VALUES ($1, $2) RETURNING *", []any{int64(1), "x"}},
		{"SELECT a.id, a.n FROM a WHERE a.id = $1", []any{int64(1)}},
		{"SELECT x.id, x.n FROM a AS x WHERE x.id = $1", []any{int64(1)}},
		{"SELECT id, n FROM a x WHERE x.id = $1", []any{int64(1)}},
		{"SELECT id, n FROM a WHERE id = $1::integer", []any{int64(1)}},
		{"SELECT id, n FROM a WHERE id IN ($1)", []any{int64(1)}},
		{"SELECT id, n FROM a ORDER BY id", nil},
		{"SELECT id, n FROM a WHERE id = $1 LIMIT 1", []any{int64(1)}},
		{"SELECT id, n FROM a ORDER BY id DESC LIMIT 10", nil},
		{"UPDATE a SET n = $2, s = $3 WHERE id = $1 RETURNING id, n, s", []any{int64(1), int64(2), "y"}},
		{"DELETE FROM a WHERE id = ANY($1::integer[]) RETURNING id", []any{"{1}"}},
		{"SELECT id FROM public.c WHERE x = $1", []any{int64(1)}},
		{"SELECT \"id\" FROM \"a\" WHERE \"n\" = $1", []any{int64(1)}},
		{"select id from a where n = $1;", []any{int64(1)}},
		{"SELECT id FROM a WHERE n BETWEEN $1 AND $2", []any{int64(1), int64(2)}},
		{"SELECT id FROM a WHERE NOT (n = $1)", []any{int64(1)}},
		{"SELECT id FROM a WHERE id = $1 FOR UPDATE", []any{int64(1)}},
		{"SELECT COALESCE(k, 0) FROM a", nil},
	}
	for _, st := range stmts {
		if _, _, err := db.Exec(st.q, st.args); err != nil {
			t.Errorf("%s: %v", st.q, err)
		}
	}
}

func TestSelectDistinct(t *testing.T) {
	db := NewDB()
	if err := db.ExecScript("CREATE TABLE l (a integer NOT NULL, b text);"); err != nil {
		t.Fatal(err)
	}
	for i := 0; i < 2; i++ {
		if _, _, err := db.Exec("INSERT INTO l (a, b) VALUES ($1, $2)", []any{int64(1), "x"}); err != nil {
			t.Fatal(err)
		}
	}
	all, _, _ := db.Exec("SELECT a, b FROM l WHERE a = $1", []any{int64(1)})
	one, _, err := db.Exec("SELECT DISTINCT a, b FROM l WHERE a = $1", []any{int64(1)})
	if err != nil || len(all.Rows) != 2 || len(one.Rows) != 1 {
		t.Errorf("all=%d distinct=%d err=%v", len(all.Rows), len(one.Rows), err)
	}
}

func TestOnConflictDoNothing(t *testing.T) {
	db := NewDB()
	if err := db.ExecScript(`CREATE TABLE l (a integer NOT NULL, b text NOT NULL); ALTER TABLE l ADD UNIQUE(a);`); err != nil {
		t.Fatal(err)
	}
	sdb := NewServer(db).Open()
	for i, q := range []string{
		`INSERT INTO l (a, b) VALUES (1, 'x') ON CONFLICT DO NOTHING;`,
		`INSERT INTO l (a, b) VALUES (1, 'y') ON CONFLICT DO NOTHING;`,
		`INSERT INTO l (a, b) VALUES (1, 'z') ON CONFLICT (a) DO NOTHING;`,
	} {
		res, err := sdb.Exec(q)
		if err != nil {
			t.Fatal(q, err)
		}
		if n, _ := res.RowsAffected(); (i == 0) != (n == 1) {
			t.Fatalf("%s: %d rows affected", q, n)
		}
	}
	var b string
	if err := sdb.QueryRow(`SELECT b FROM l WHERE a = 1;`).Scan(&b); err != nil || b != "x" {
		t.Fatalf("kept row: %q, %v", b, err)
	}
	if _, err := sdb.Exec(`INSERT INTO l (a, b) VALUES (1, 'y') ON CONFLICT (b) DO NOTHING;`); err == nil {
		t.Fatal("a conflict target without a unique constraint is accepted")
	}
	if _, err := sdb.Exec(`INSERT INTO l (a, b) VALUES (1, 'y');`); err == nil {
		t.Fatal("plain duplicate accepted")
	}
	if err := sdb.QueryRow(`INSERT INTO l (a, b) VALUES (1, 'q') ON CONFLICT DO NOTHING RETURNING b;`).Scan(&b); err != sql.ErrNoRows {
		t.Fatalf("RETURNING of a skipped insert: %v", err)
	}
}
