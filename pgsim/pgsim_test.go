package pgsim

import (
	"database/sql"
	"testing"
)

const schema = `
-- header
CREATE TYPE Composite AS (A integer, B smallint, C integer);
	CREATE TABLE items (
		Id serial PRIMARY KEY,
	Title text NOT NULL,
	Flow integer  CHECK (Flow IN (0, 1, 2, 4)) NOT NULL,
	F integer[]  CHECK (array_length(F, 1) = 3) NOT NULL,
	Tags text[] ,
	Cp Composite NOT NULL,
	Data jsonb NOT NULL,
	Opt integer ,
	guard smallint  CHECK (guard IN (0, 1, 2)) NOT NULL,
	Deadline timestamp (0) with time zone NOT NULL
	);
	CREATE TABLE links (
		IdItem integer NOT NULL,
		Note text NOT NULL
	);
-- constraints
ALTER TABLE links ADD FOREIGN KEY(IdItem) REFERENCES items ON DELETE CASCADE;
ALTER TABLE items ALTER COLUMN guard SET DEFAULT 0 /* LocalEnum.A */;
ALTER TABLE items ADD CHECK(guard = 0 /* LocalEnum.A */);
ALTER TABLE links ADD UNIQUE(IdItem, Note);
	CREATE OR REPLACE FUNCTION gomacro_validate_json_x (data jsonb)
		RETURNS boolean
		AS $$
	BEGIN
		IF jsonb_typeof(data) != 'array' THEN RETURN FALSE; END IF;
		RETURN TRUE;
	END;
	$$
	LANGUAGE 'plpgsql'
	IMMUTABLE;
ALTER TABLE items ADD CONSTRAINT Data_gomacro CHECK (gomacro_validate_json_x(Data));
`

func TestBasic(t *testing.T) {
	db := NewDB()
	if err := db.ExecScript(schema); err != nil {
		t.Fatal(err)
	}
	srv := NewServer(db)
	sdb := srv.Open()
	var id int64
	var title string
	var f, cp, tags []byte
	err := sdb.QueryRow(`INSERT INTO items (title, flow, f, tags, cp, data, opt, deadline) VALUES ($1,$2,$3,$4,$5,$6,$7,$8) RETURNING id, title, f, cp, tags;`,
		"hello", 2, "{1,2,3}", `{"a b","c"}`, []byte("(1, 2, 3)"), `{"x":1}`, nil, "2020-01-02T03:04:05Z").Scan(&id, &title, &f, &cp, &tags)
	if err != nil {
		t.Fatal(err)
	}
	if id != 1 || title != "hello" || string(f) != "{1,2,3}" || string(cp) != "(1,2,3)" || string(tags) != `{"a b",c}` {
		t.Fatalf("got %d %q %s %s %s", id, title, f, cp, tags)
	}
	if _, err := sdb.Exec(`INSERT INTO links (iditem, note) VALUES ($1, $2)`, 1, "n"); err != nil {
		t.Fatal(err)
	}
	if _, err := sdb.Exec(`INSERT INTO links (iditem, note) VALUES ($1, $2)`, 1, "n"); err == nil {
		t.Fatal("unique violation expected")
	}
	if _, err := sdb.Exec(`INSERT INTO links (iditem, note) VALUES ($1, $2)`, 7, "n"); err == nil {
		t.Fatal("fk violation expected")
	}
	if _, err := sdb.Exec(`INSERT INTO links (iditem, nope) VALUES ($1, $2)`, 1, "x"); err == nil {
		t.Fatal("unknown column expected")
	}
	if _, err := sdb.Exec(`SELECT id FROM items WHERE id = $2`, 1); err == nil {
		t.Fatal("placeholder audit expected")
	}
	rows, err := sdb.Query(`SELECT iditem, note FROM links WHERE iditem = ANY($1)`, "{1,2}")
	if err != nil {
		t.Fatal(err)
	}
	n := 0
	for rows.Next() {
		n++
	}
	if n != 1 {
		t.Fatal(n)
	}
	var got sql.NullInt64
	if err := sdb.QueryRow(`UPDATE items SET (title, opt) = ($1, $2) WHERE id = $3 RETURNING opt;`, "t2", 5, 1).Scan(&got); err != nil || got.Int64 != 5 {
		t.Fatal(err, got)
	}
	tx, _ := sdb.Begin()
	st, err := tx.Prepare(`COPY "links" ("iditem", "note") FROM STDIN`)
	if err != nil {
		t.Fatal(err)
	}
	st.Exec(1, "a")
	st.Exec(1, "b")
	if _, err := st.Exec(); err != nil {
		t.Fatal(err)
	}
	st.Close()
	tx.Rollback()
	if db.RowCount("links") != 1 {
		t.Fatal(db.RowCount("links"))
	}
	if _, err := sdb.Exec(`DELETE FROM items WHERE id = $1`, 1); err != nil {
		t.Fatal(err)
	}
	if db.RowCount("links") != 0 {
		t.Fatal("cascade")
	}
}
