package pgsim

import (
	"encoding/json"
	"fmt"
	"math"
	"strconv"
	"strings"
	"time"
)

type baseKind int

const (
	kBool baseKind = iota
	kInt2
	kInt4
	kInt8
	kFloat4
	kFloat8
	kText
	kTimestamp
	kDate
	kBytea
	kJSON
	kComposite
	kUnknown // a type name the schema never declared: values are kept as text
)

// Type is a column type.
type Type struct {
	Kind    baseKind
	Array   bool
	Name    string         // as written (composites, unknown)
	Comp    *CompositeType // for kComposite
	Precise bool           // timestamp(0)
}

func (t *Type) String() string {
	n := [...]string{"boolean", "smallint", "integer", "bigint", "real", "double precision", "text", "timestamp with time zone", "date", "bytea", "jsonb", "", ""}[t.Kind]
	if t.Kind == kComposite || t.Kind == kUnknown {
		n = t.Name
	}
	if t.Array {
		n += "[]"
	}
	return n
}

type CompositeType struct {
	Name   string
	Fields []string
	Types  []*Type
}

// Values: nil (NULL), bool, int64, float64, string (text and json),
// []byte (bytea), time.Time, arrayVal, compVal.
type arrayVal struct{ Elems []any }
type compVal struct{ Fields []any }

func elemType(t *Type) *Type {
	e := *t
	e.Array = false
	return &e
}

// coerce types an incoming value (driver argument or literal) for a column.
func coerce(v any, t *Type) (any, *Error) {
	if v == nil {
		return nil, nil
	}
	if t.Array {
		switch x := v.(type) {
		case arrayVal:
			out := arrayVal{}
			for _, e := range x.Elems {
				c, err := coerce(e, elemType(t))
				if err != nil {
					return nil, err
				}
				out.Elems = append(out.Elems, c)
			}
			return out, nil
		case string:
			return parseArray(x, t)
		case []byte:
			return parseArray(string(x), t)
		}
		return nil, errf("type", "cannot use %T as %s", v, t)
	}
	switch t.Kind {
	case kBool:
		switch x := v.(type) {
		case bool:
			return x, nil
		case string:
			switch strings.ToLower(strings.TrimSpace(x)) {
			case "t", "true", "yes", "on", "1":
				return true, nil
			case "f", "false", "no", "off", "0":
				return false, nil
			}
		case []byte:
			return coerce(string(x), t)
		}
		return nil, errf("type", "invalid input for type boolean: %v (%T)", v, v)
	case kInt2, kInt4, kInt8:
		var n int64
		switch x := v.(type) {
		case int64:
			n = x
		case float64:
			if x != math.Trunc(x) {
				return nil, errf("type", "invalid input syntax for type %s: %v", t, x)
			}
			n = int64(x)
		case string:
			p, err := strconv.ParseInt(strings.TrimSpace(x), 10, 64)
			if err != nil {
				return nil, errf("type", "invalid input syntax for type %s: %q", t, x)
			}
			n = p
		case []byte:
			return coerce(string(x), t)
		case bool:
			return nil, errf("type", "column is of type %s but expression is of type boolean", t)
		default:
			return nil, errf("type", "cannot use %T as %s", v, t)
		}
		switch t.Kind {
		case kInt2:
			if n < math.MinInt16 || n > math.MaxInt16 {
				return nil, errf("type", "smallint out of range: %d", n)
			}
		case kInt4:
			if n < math.MinInt32 || n > math.MaxInt32 {
				return nil, errf("type", "integer out of range: %d", n)
			}
		}
		return n, nil
	case kFloat4, kFloat8:
		var f float64
		switch x := v.(type) {
		case float64:
			f = x
		case int64:
			f = float64(x)
		case string:
			p, err := strconv.ParseFloat(strings.TrimSpace(x), 64)
			if err != nil {
				return nil, errf("type", "invalid input syntax for type %s: %q", t, x)
			}
			f = p
		case []byte:
			return coerce(string(x), t)
		default:
			return nil, errf("type", "cannot use %T as %s", v, t)
		}
		if t.Kind == kFloat4 {
			f = float64(float32(f))
		}
		return f, nil
	case kText:
		switch x := v.(type) {
		case string:
			return x, nil
		case []byte:
			return string(x), nil
		case int64:
			return strconv.FormatInt(x, 10), nil
		case float64:
			return strconv.FormatFloat(x, 'g', -1, 64), nil
		case bool:
			return strconv.FormatBool(x), nil
		case time.Time:
			return x.Format(time.RFC3339Nano), nil
		}
		return nil, errf("type", "cannot use %T as text", v)
	case kTimestamp, kDate:
		var tm time.Time
		switch x := v.(type) {
		case time.Time:
			tm = x
		case string:
			p, err := parseTime(x)
			if err != nil {
				return nil, errf("type", "invalid input syntax for type %s: %q", t, x)
			}
			tm = p
		case []byte:
			return coerce(string(x), t)
		default:
			return nil, errf("type", "cannot use %T as %s", v, t)
		}
		if t.Kind == kDate {
			y, m, d := tm.Date()
			return time.Date(y, m, d, 0, 0, 0, 0, time.UTC), nil
		}
		if t.Precise {
			tm = tm.Round(time.Second)
		} else {
			tm = tm.Round(time.Microsecond)
		}
		return tm.UTC(), nil
	case kBytea:
		switch x := v.(type) {
		case []byte:
			return append([]byte(nil), x...), nil
		case string:
			return []byte(x), nil
		}
		return nil, errf("type", "cannot use %T as bytea", v)
	case kJSON:
		var s string
		switch x := v.(type) {
		case string:
			s = x
		case []byte:
			s = string(x)
		default:
			return nil, errf("type", "cannot use %T as jsonb", v)
		}
		if !json.Valid([]byte(s)) {
			return nil, errf("type", "invalid input syntax for type json: %q", clip(s))
		}
		return s, nil
	case kComposite:
		switch x := v.(type) {
		case compVal:
			return x, nil
		case string:
			return parseComposite(x, t)
		case []byte:
			return parseComposite(string(x), t)
		}
		return nil, errf("type", "cannot use %T as %s", v, t)
	default: // unknown type name: keep the text
		switch x := v.(type) {
		case string:
			return x, nil
		case []byte:
			return string(x), nil
		}
		return fmt.Sprint(v), nil
	}
}

func clip(s string) string {
	if len(s) > 120 {
		return s[:120] + "..."
	}
	return s
}

func parseTime(s string) (time.Time, error) {
	for _, layout := range []string{time.RFC3339Nano, "2006-01-02 15:04:05.999999999Z07:00", "2006-01-02 15:04:05.999999999Z07", "2006-01-02 15:04:05.999999999", "2006-01-02"} {
		if t, err := time.Parse(layout, s); err == nil {
			return t, nil
		}
	}
	return time.Time{}, fmt.Errorf("bad time")
}

// parseArray reads PostgreSQL's array text format (one dimension).
func parseArray(s string, t *Type) (any, *Error) {
	s = strings.TrimSpace(s)
	if len(s) < 2 || s[0] != '{' || s[len(s)-1] != '}' {
		return nil, errf("type", "malformed array literal: %q", clip(s))
	}
	body := s[1 : len(s)-1]
	out := arrayVal{}
	et := elemType(t)
	i := 0
	if strings.TrimSpace(body) == "" {
		return out, nil
	}
	for {
		for i < len(body) && (body[i] == ' ' || body[i] == '\t' || body[i] == '\n') {
			i++
		}
		var raw string
		quoted := false
		if i < len(body) && body[i] == '"' {
			quoted = true
			var b strings.Builder
			i++
			for {
				if i >= len(body) {
					return nil, errf("type", "malformed array literal: %q", clip(s))
				}
				if body[i] == '\\' && i+1 < len(body) {
					b.WriteByte(body[i+1])
					i += 2
					continue
				}
				if body[i] == '"' {
					i++
					break
				}
				b.WriteByte(body[i])
				i++
			}
			raw = b.String()
		} else {
			j := i
			for j < len(body) && body[j] != ',' {
				if body[j] == '{' || body[j] == '}' {
					return nil, errf("type", "multidimensional arrays are not supported by the simulator: %q", clip(s))
				}
				j++
			}
			raw = strings.TrimSpace(body[i:j])
			i = j
		}
		if !quoted && strings.EqualFold(raw, "NULL") {
			out.Elems = append(out.Elems, nil)
		} else {
			v, err := coerce(raw, et)
			if err != nil {
				return nil, err
			}
			out.Elems = append(out.Elems, v)
		}
		for i < len(body) && (body[i] == ' ' || body[i] == '\t') {
			i++
		}
		if i >= len(body) {
			break
		}
		if body[i] != ',' {
			return nil, errf("type", "malformed array literal: %q", clip(s))
		}
		i++
	}
	return out, nil
}

func parseComposite(s string, t *Type) (any, *Error) {
	s = strings.TrimSpace(s)
	if len(s) < 2 || s[0] != '(' || s[len(s)-1] != ')' {
		return nil, errf("type", "malformed record literal: %q", clip(s))
	}
	parts := strings.Split(s[1:len(s)-1], ",")
	if t.Comp == nil {
		return s, nil
	}
	if len(parts) != len(t.Comp.Fields) {
		return nil, errf("type", "malformed record literal %q: %d fields for type %s with %d attributes", clip(s), len(parts), t.Name, len(t.Comp.Fields))
	}
	out := compVal{}
	for i, p := range parts {
		if strings.TrimSpace(p) == "" {
			out.Fields = append(out.Fields, nil)
			continue
		}
		p = strings.Trim(strings.TrimSpace(p), "\"")
		v, err := coerce(p, t.Comp.Types[i])
		if err != nil {
			return nil, err
		}
		out.Fields = append(out.Fields, v)
	}
	return out, nil
}

func formatFloat(f float64, t *Type) string {
	if t.Kind == kFloat4 {
		return strconv.FormatFloat(f, 'g', -1, 32)
	}
	return strconv.FormatFloat(f, 'g', -1, 64)
}

// textOf renders a value in PostgreSQL's canonical output text.
func textOf(v any, t *Type) string {
	switch x := v.(type) {
	case nil:
		return ""
	case bool:
		if x {
			return "t"
		}
		return "f"
	case int64:
		return strconv.FormatInt(x, 10)
	case float64:
		return formatFloat(x, t)
	case string:
		return x
	case []byte:
		return "\\x" + fmt.Sprintf("%x", x)
	case time.Time:
		if t.Kind == kDate {
			return x.Format("2006-01-02")
		}
		return x.Format("2006-01-02 15:04:05.999999999Z07")
	case arrayVal:
		et := elemType(t)
		var b strings.Builder
		b.WriteByte('{')
		for i, e := range x.Elems {
			if i > 0 {
				b.WriteByte(',')
			}
			if e == nil {
				b.WriteString("NULL")
				continue
			}
			s := textOf(e, et)
			if needsArrayQuote(s) && (et.Kind == kText || et.Kind == kJSON || et.Kind == kComposite || et.Kind == kUnknown || et.Kind == kTimestamp) {
				b.WriteByte('"')
				b.WriteString(strings.NewReplacer(`\`, `\\`, `"`, `\"`).Replace(s))
				b.WriteByte('"')
			} else {
				b.WriteString(s)
			}
		}
		b.WriteByte('}')
		return b.String()
	case compVal:
		var b strings.Builder
		b.WriteByte('(')
		for i, e := range x.Fields {
			if i > 0 {
				b.WriteByte(',')
			}
			if e != nil && t.Comp != nil {
				b.WriteString(textOf(e, t.Comp.Types[i]))
			}
		}
		b.WriteByte(')')
		return b.String()
	}
	return fmt.Sprint(v)
}

func needsArrayQuote(s string) bool {
	if s == "" || strings.EqualFold(s, "null") {
		return true
	}
	return strings.ContainsAny(s, "{},\"\\ \t\n\r\v\f")
}

// driverValue converts a stored value to what lib/pq hands to database/sql:
// int64, float64, bool, string (text), time.Time, and []byte with the
// canonical text for everything else (bytea: the raw bytes).
func driverValue(v any, t *Type) any {
	switch x := v.(type) {
	case nil:
		return nil
	case bool, int64, float64, time.Time:
		return x
	case []byte:
		return append([]byte(nil), x...)
	case string:
		if t.Kind == kText && !t.Array {
			return x
		}
		return []byte(x)
	default:
		return []byte(textOf(v, t))
	}
}

// equalValues implements the SQL = operator for two non-NULL values.
func equalValues(a, b any) bool {
	switch x := a.(type) {
	case int64:
		switch y := b.(type) {
		case int64:
			return x == y
		case float64:
			return float64(x) == y
		}
	case float64:
		switch y := b.(type) {
		case float64:
			return x == y
		case int64:
			return x == float64(y)
		}
	case bool:
		y, ok := b.(bool)
		return ok && x == y
	case string:
		switch y := b.(type) {
		case string:
			return x == y
		case []byte:
			return x == string(y)
		}
	case []byte:
		switch y := b.(type) {
		case []byte:
			return string(x) == string(y)
		case string:
			return string(x) == y
		}
	case time.Time:
		y, ok := b.(time.Time)
		return ok && x.Equal(y)
	case arrayVal:
		y, ok := b.(arrayVal)
		if !ok || len(x.Elems) != len(y.Elems) {
			return false
		}
		for i := range x.Elems {
			if x.Elems[i] == nil || y.Elems[i] == nil {
				if x.Elems[i] != nil || y.Elems[i] != nil {
					return false
				}
				continue
			}
			if !equalValues(x.Elems[i], y.Elems[i]) {
				return false
			}
		}
		return true
	case compVal:
		y, ok := b.(compVal)
		if !ok || len(x.Fields) != len(y.Fields) {
			return false
		}
		for i := range x.Fields {
			if (x.Fields[i] == nil) != (y.Fields[i] == nil) {
				return false
			}
			if x.Fields[i] != nil && !equalValues(x.Fields[i], y.Fields[i]) {
				return false
			}
		}
		return true
	}
	return false
}

func keyOf(v any) string {
	switch x := v.(type) {
	case nil:
		return "N"
	case int64:
		return "i" + strconv.FormatInt(x, 10)
	case float64:
		if x == math.Trunc(x) && math.Abs(x) < 1e15 {
			return "i" + strconv.FormatInt(int64(x), 10)
		}
		return "f" + strconv.FormatFloat(x, 'g', -1, 64)
	case bool:
		return "b" + strconv.FormatBool(x)
	case string:
		return "s" + x
	case []byte:
		return "s" + string(x)
	case time.Time:
		return "t" + strconv.FormatInt(x.UnixNano(), 10)
	case arrayVal:
		var b strings.Builder
		b.WriteString("a[")
		for _, e := range x.Elems {
			b.WriteString(keyOf(e))
			b.WriteByte('|')
		}
		return b.String()
	case compVal:
		var b strings.Builder
		b.WriteString("c(")
		for _, e := range x.Fields {
			b.WriteString(keyOf(e))
			b.WriteByte('|')
		}
		return b.String()
	}
	return fmt.Sprintf("?%v", v)
}
