package pgsim

import (
	"context"
	"database/sql"
	"database/sql/driver"
	"errors"
	"io"
	"strings"
)

// FaultKind names an injected driver fault.
type FaultKind string

const (
	NoFault        FaultKind = ""
	ErrBeforeApply FaultKind = "err_before_apply"       // the statement fails, nothing applied
	BadConnBefore  FaultKind = "bad_conn_before_apply"  // driver.ErrBadConn before anything is sent: database/sql retries
	RowsErrMidway  FaultKind = "rows_err_mid_iteration" // the result set breaks after some rows (the statement was applied)
	CommitFails    FaultKind = "commit_fails"           // COMMIT fails, the transaction is rolled back
	ConnLostInTx   FaultKind = "conn_lost_in_tx"        // connection dies inside a transaction: rolled back, later statements fail
	ErrAfterApply  FaultKind = "err_after_apply"        // the statement was applied but the reply is lost
	RowRejected    FaultKind = "copy_row_rejected"      // one row of a COPY is refused on the client side (a value that cannot be converted): that Exec fails, the statement stays usable
)

// Event is what the fault plane is asked about.
type Event struct {
	Op   string // prepare | exec | query | copy-row | copy-flush | begin | commit | rollback
	SQL  string
	InTx bool
}

// Server is one simulated database server with its connection pool hooks.
type Server struct {
	DB *DB
	// Fault is consulted before every driver operation; nil = no faults.
	Fault func(ev Event) FaultKind
	// Log receives every statement sent by the client.
	Log func(ev Event, err error)

	FaultsFired map[FaultKind]int64
	// FaultedOps counts operations during which a fault fired since the
	// last ResetFaultFlag.
	faulted bool
	conns   int
}

func NewServer(db *DB) *Server { return &Server{DB: db, FaultsFired: map[FaultKind]int64{}} }

// Open returns a *sql.DB speaking to the server over one connection.
func (s *Server) Open() *sql.DB {
	db := sql.OpenDB(connector{s})
	db.SetMaxOpenConns(4)
	db.SetMaxIdleConns(4)
	return db
}

// FaultedSinceReset reports whether any fault fired since ResetFaultFlag.
func (s *Server) FaultedSinceReset() bool { return s.faulted }
func (s *Server) ResetFaultFlag()         { s.faulted = false }

func (s *Server) ask(ev Event, allowed ...FaultKind) FaultKind {
	if s.Fault == nil {
		return NoFault
	}
	k := s.Fault(ev)
	if k == NoFault {
		return NoFault
	}
	for _, a := range allowed {
		if a == k {
			s.FaultsFired[k]++
			s.faulted = true
			return k
		}
	}
	return NoFault
}

type connector struct{ s *Server }

func (c connector) Connect(context.Context) (driver.Conn, error) {
	c.s.conns++
	return &conn{s: c.s}, nil
}
func (c connector) Driver() driver.Driver { return drv{} }

type drv struct{}

func (drv) Open(string) (driver.Conn, error) { return nil, errors.New("pgsim: use Server.Open") }

type conn struct {
	s    *Server
	inTx bool
	snap snapshot
	// aborted: a statement failed inside the transaction; PostgreSQL ignores every
	// later command until the end of the transaction block (25P02)
	aborted bool
	broken  bool
	// openRows counts result sets of this connection that were neither read to
	// the end nor closed: the wire protocol cannot start another statement then
	openRows int
	closed   bool
}

var errRowRejected = errors.New("pgsim: injected fault: this row cannot be converted to the column types (client side)")

var errInjected = errors.New("pgsim: injected fault: the server closed the connection unexpectedly")

func (c *conn) log(ev Event, err error) {
	if c.s.Log != nil {
		c.s.Log(ev, err)
	}
}

func (c *conn) Prepare(query string) (driver.Stmt, error) {
	if c.broken {
		return nil, driver.ErrBadConn
	}
	st, perr := parseStatement(query)
	if perr != nil {
		perr.Stmt = query
		c.log(Event{Op: "prepare", SQL: query, InTx: c.inTx}, perr)
		return nil, perr
	}
	if cp, ok := st.(copyStmt); ok {
		if !c.inTx {
			return nil, &Error{Class: "state", Msg: "COPY FROM STDIN is only supported inside a transaction (lib/pq: errCopyNotSupportedOutsideTxn)", Stmt: query}
		}
		if err := c.s.DB.CheckCopy(cp.table, cp.cols); err != nil {
			err.Stmt = query
			c.log(Event{Op: "prepare", SQL: query, InTx: c.inTx}, err)
			return nil, err
		}
		return &copyIn{c: c, st: cp, sql: query}, nil
	}
	return &stmt{c: c, sql: query}, nil
}

func (c *conn) Close() error { c.closed = true; return nil }

func (c *conn) Begin() (driver.Tx, error) {
	if c.broken {
		return nil, driver.ErrBadConn
	}
	if k := c.s.ask(Event{Op: "begin"}, BadConnBefore); k == BadConnBefore {
		c.broken = true
		return nil, driver.ErrBadConn
	}
	c.inTx = true
	c.aborted = false
	c.snap = c.s.DB.snapshot()
	c.log(Event{Op: "begin"}, nil)
	return &tx{c}, nil
}

// IsValid lets database/sql drop broken connections.
func (c *conn) IsValid() bool { return !c.broken }

// ResetSession is called before a connection is reused.
func (c *conn) ResetSession(context.Context) error {
	if c.broken {
		return driver.ErrBadConn
	}
	return nil
}

type tx struct{ c *conn }

func (t *tx) Commit() error {
	c := t.c
	if c.broken {
		c.inTx = false
		return errInjected
	}
	if k := c.s.ask(Event{Op: "commit", InTx: true}, CommitFails); k == CommitFails {
		c.s.DB.restore(c.snap)
		c.inTx = false
		c.log(Event{Op: "commit", InTx: true}, errInjected)
		return errInjected
	}
	if c.aborted {
		// COMMIT of a failed transaction is a ROLLBACK; lib/pq reports it as an error
		c.s.DB.restore(c.snap)
		c.inTx, c.aborted, c.snap = false, false, nil
		err := &Error{Class: "aborted", Msg: "could not complete operation in a failed transaction"}
		c.log(Event{Op: "commit", InTx: true}, err)
		return err
	}
	c.inTx = false
	c.snap = nil
	c.log(Event{Op: "commit", InTx: true}, nil)
	return nil
}

func (t *tx) Rollback() error {
	c := t.c
	if c.inTx && c.snap != nil {
		c.s.DB.restore(c.snap)
	}
	c.inTx = false
	c.aborted = false
	c.snap = nil
	c.log(Event{Op: "rollback", InTx: true}, nil)
	if c.broken {
		return nil
	}
	return nil
}

// loseConnection implements ConnLostInTx: the transaction's effects vanish.
func (c *conn) loseConnection() {
	if c.inTx && c.snap != nil {
		c.s.DB.restore(c.snap)
		c.snap = nil
	}
	c.broken = true
}

type stmt struct {
	c   *conn
	sql string
}

func (s *stmt) Close() error  { return nil }
func (s *stmt) NumInput() int { return -1 }

func toArgs(args []driver.Value) []any {
	out := make([]any, len(args))
	for i, a := range args {
		out[i] = a
	}
	return out
}

func (s *stmt) run(op string, args []driver.Value) (*Result, error) {
	c := s.c
	ev := Event{Op: op, SQL: s.sql, InTx: c.inTx}
	if c.broken {
		if c.inTx {
			return nil, errInjected
		}
		return nil, driver.ErrBadConn
	}
	allowed := []FaultKind{ErrBeforeApply, ErrAfterApply}
	if c.inTx {
		allowed = append(allowed, ConnLostInTx)
	} else {
		allowed = append(allowed, BadConnBefore)
	}
	if op == "query" {
		allowed = append(allowed, RowsErrMidway)
	}
	k := c.s.ask(ev, allowed...)
	switch k {
	case ErrBeforeApply:
		c.log(ev, errInjected)
		return nil, errInjected
	case BadConnBefore:
		c.broken = true
		c.log(ev, driver.ErrBadConn)
		return nil, driver.ErrBadConn
	case ConnLostInTx:
		c.loseConnection()
		c.log(ev, errInjected)
		return nil, errInjected
	}
	if c.openRows > 0 {
		err := &Error{Class: "state", Msg: "pq: unexpected Parse response 'D': a previous result set of this connection is still open (rows not closed)", Stmt: s.sql}
		c.log(ev, err)
		return nil, err
	}
	if c.inTx && c.aborted {
		err := &Error{Class: "aborted", Msg: "current transaction is aborted, commands ignored until end of transaction block", Stmt: s.sql}
		c.log(ev, err)
		return nil, err
	}
	res, _, err := c.s.DB.Exec(s.sql, toArgs(args))
	if err != nil {
		if c.inTx {
			c.aborted = true
		}
		c.log(ev, err)
		return nil, err
	}
	c.log(ev, nil)
	if k == ErrAfterApply {
		return nil, errInjected
	}
	if k == RowsErrMidway {
		res.breakAfter = len(res.Rows) / 2
		res.broken = true
	}
	return res, nil
}

func (s *stmt) Exec(args []driver.Value) (driver.Result, error) {
	res, err := s.run("exec", args)
	if err != nil {
		return nil, err
	}
	return driver.RowsAffected(res.Affected), nil
}

func (s *stmt) Query(args []driver.Value) (driver.Rows, error) {
	res, err := s.run("query", args)
	if err != nil {
		return nil, err
	}
	s.c.openRows++
	return &rows{res: res, c: s.c}, nil
}

type rows struct {
	res    *Result
	pos    int
	c      *conn
	closed bool
}

func (r *rows) Columns() []string {
	if len(r.res.Cols) == 0 {
		return []string{}
	}
	return r.res.Cols
}
func (r *rows) Close() error {
	if !r.closed {
		r.closed = true
		r.c.openRows--
	}
	return nil
}
func (r *rows) Next(dest []driver.Value) error {
	if r.res.broken && r.pos >= r.res.breakAfter {
		return errInjected
	}
	if r.pos >= len(r.res.Rows) {
		return io.EOF
	}
	row := r.res.Rows[r.pos]
	r.pos++
	for i := range dest {
		dest[i] = driverValue(row[i], r.res.Types[i])
	}
	return nil
}

// copyIn buffers rows like lib/pq's COPY FROM STDIN statement: Exec with
// arguments adds a row, Exec without arguments sends everything.
type copyIn struct {
	c      *conn
	st     copyStmt
	sql    string
	rows   [][]any
	closed bool
	done   bool
}

func (cp *copyIn) NumInput() int { return -1 }
func (cp *copyIn) Close() error {
	if cp.closed {
		return nil
	}
	cp.closed = true
	if !cp.done && len(cp.rows) > 0 {
		// lib/pq flushes pending rows on Close
		return cp.flush()
	}
	return nil
}

func (cp *copyIn) flush() error {
	c := cp.c
	ev := Event{Op: "copy-flush", SQL: cp.sql, InTx: c.inTx}
	if c.broken {
		return errInjected
	}
	switch c.s.ask(ev, ErrBeforeApply, ConnLostInTx) {
	case ErrBeforeApply:
		cp.done = true
		return errInjected
	case ConnLostInTx:
		c.loseConnection()
		return errInjected
	}
	cp.done = true
	if c.inTx && c.aborted {
		err := &Error{Class: "aborted", Msg: "current transaction is aborted, commands ignored until end of transaction block", Stmt: cp.sql}
		c.log(ev, err)
		return err
	}
	c.s.DB.Statements++
	c.s.DB.Texts[strings.Join(strings.Fields(cp.sql), " ")]++
	if err := c.s.DB.CopyRows(cp.st.table, cp.st.cols, cp.rows); err != nil {
		err.Stmt = cp.sql
		c.aborted = c.inTx
		c.log(ev, err)
		return err
	}
	c.log(ev, nil)
	return nil
}

func (cp *copyIn) Exec(args []driver.Value) (driver.Result, error) {
	if cp.c.broken {
		return nil, errInjected
	}
	if cp.done {
		return nil, &Error{Class: "state", Msg: "COPY statement already finished", Stmt: cp.sql}
	}
	if len(args) == 0 {
		if err := cp.flush(); err != nil {
			return nil, err
		}
		return driver.RowsAffected(int64(len(cp.rows))), nil
	}
	switch cp.c.s.ask(Event{Op: "copy-row", SQL: cp.sql, InTx: true}, ConnLostInTx, RowRejected) {
	case ConnLostInTx:
		cp.c.loseConnection()
		return nil, errInjected
	case RowRejected:
		return nil, errRowRejected
	}
	cp.rows = append(cp.rows, toArgs(args))
	return driver.RowsAffected(0), nil
}

func (cp *copyIn) Query([]driver.Value) (driver.Rows, error) {
	return nil, &Error{Class: "state", Msg: "COPY statement cannot be queried", Stmt: cp.sql}
}
