package pgsim

import (
	"encoding/json"
	"fmt"
	"strings"
	"time"
)

func ptrString(p *any) string { return fmt.Sprintf("%p", p) }

var builtins = map[string]bool{
	"array_length": true, "jsonb_typeof": true, "json_typeof": true, "lower": true, "upper": true, "coalesce": true,
	"length": true, "char_length": true, "now": true, "cardinality": true, "abs": true, "jsonb_array_length": true,
}

// validate resolves every column and function reference of e statically, the
// way PostgreSQL's analyser does even when no row is ever evaluated.
func (db *DB) validate(e expr, t *Table, args []any) *Error {
	switch x := e.(type) {
	case nil, eLit:
		return nil
	case eParam:
		if args != nil && (x.n < 1 || x.n > len(args)) {
			return errf("params", "there is no parameter $%d", x.n)
		}
	case eCol:
		if t == nil {
			return errf("undefined", "column %q does not exist", x.name)
		}
		_, err := t.col(x.name)
		return err
	case eBin:
		if err := db.validate(x.l, t, args); err != nil {
			return err
		}
		return db.validate(x.r, t, args)
	case eNot:
		return db.validate(x.e, t, args)
	case eIsNull:
		return db.validate(x.e, t, args)
	case eAny:
		if err := db.validate(x.l, t, args); err != nil {
			return err
		}
		return db.validate(x.arr, t, args)
	case eIn:
		if err := db.validate(x.l, t, args); err != nil {
			return err
		}
		for _, i := range x.list {
			if err := db.validate(i, t, args); err != nil {
				return err
			}
		}
	case eFunc:
		if !builtins[x.name] && !db.funcs[x.name] {
			return errf("undefined", "function %s does not exist", x.name)
		}
		for _, a := range x.args {
			if err := db.validate(a, t, args); err != nil {
				return err
			}
		}
	case eCast:
		if _, err := db.resolveType(x.typ); err != nil {
			return err
		}
		return db.validate(x.e, t, args)
	case eRow:
		for _, i := range x.items {
			if err := db.validate(i, t, args); err != nil {
				return err
			}
		}
	}
	return nil
}

// typeHint returns the column type an expression side refers to, so that the
// other side (a parameter or a literal) can be typed like PostgreSQL does.
func typeHint(e expr, t *Table) *Type {
	if c, ok := e.(eCol); ok && t != nil {
		if i, ok := t.idx[c.name]; ok {
			return t.Cols[i].Type
		}
	}
	if c, ok := e.(eCast); ok {
		return typeHint(c.e, t)
	}
	return nil
}

func (db *DB) evalTyped(e expr, t *Table, row []any, args []any, hint *Type) (any, *Error) {
	v, err := db.eval(e, t, row, args)
	if err != nil || v == nil || hint == nil {
		return v, err
	}
	switch e.(type) {
	case eParam, eLit:
		return coerce(v, hint)
	}
	return v, nil
}

func (db *DB) eval(e expr, t *Table, row []any, args []any) (any, *Error) {
	switch x := e.(type) {
	case nil:
		return nil, nil
	case eLit:
		return x.v, nil
	case eParam:
		if x.n < 1 || x.n > len(args) {
			return nil, errf("params", "there is no parameter $%d", x.n)
		}
		return args[x.n-1], nil
	case eCol:
		if t == nil {
			return nil, errf("undefined", "column %q does not exist", x.name)
		}
		i, err := t.col(x.name)
		if err != nil {
			return nil, err
		}
		return row[i], nil
	case eNot:
		v, err := db.eval(x.e, t, row, args)
		if err != nil || v == nil {
			return nil, err
		}
		b, ok := v.(bool)
		if !ok {
			return nil, errf("type", "argument of NOT must be type boolean")
		}
		return !b, nil
	case eIsNull:
		v, err := db.eval(x.e, t, row, args)
		if err != nil {
			return nil, err
		}
		return (v == nil) != x.not, nil
	case eBin:
		switch x.op {
		case "and", "or":
			l, err := db.eval(x.l, t, row, args)
			if err != nil {
				return nil, err
			}
			r, err := db.eval(x.r, t, row, args)
			if err != nil {
				return nil, err
			}
			lb, lok := l.(bool)
			rb, rok := r.(bool)
			if (l != nil && !lok) || (r != nil && !rok) {
				return nil, errf("type", "argument of %s must be type boolean", strings.ToUpper(x.op))
			}
			if x.op == "and" {
				if (lok && !lb) || (rok && !rb) {
					return false, nil
				}
				if l == nil || r == nil {
					return nil, nil
				}
				return true, nil
			}
			if (lok && lb) || (rok && rb) {
				return true, nil
			}
			if l == nil || r == nil {
				return nil, nil
			}
			return false, nil
		}
		l, err := db.evalTyped(x.l, t, row, args, typeHint(x.r, t))
		if err != nil {
			return nil, err
		}
		r, err := db.evalTyped(x.r, t, row, args, typeHint(x.l, t))
		if err != nil {
			return nil, err
		}
		if l == nil || r == nil {
			return nil, nil
		}
		switch x.op {
		case "=":
			return equalValues(l, r), nil
		case "<>":
			return !equalValues(l, r), nil
		case "<", ">", "<=", ">=":
			c, ok := compare(l, r)
			if !ok {
				return nil, errf("type", "operator %s is not defined for %T and %T", x.op, l, r)
			}
			switch x.op {
			case "<":
				return c < 0, nil
			case ">":
				return c > 0, nil
			case "<=":
				return c <= 0, nil
			default:
				return c >= 0, nil
			}
		case "+", "-", "*", "/", "%":
			return arith(x.op, l, r)
		case "||":
			return fmt.Sprint(l) + fmt.Sprint(r), nil
		}
		return nil, errf("syntax", "unsupported operator %s", x.op)
	case eAny:
		hintL := typeHint(x.l, t)
		l, err := db.eval(x.l, t, row, args)
		if err != nil {
			return nil, err
		}
		av, err := db.eval(x.arr, t, row, args)
		if err != nil {
			return nil, err
		}
		if av == nil {
			return nil, nil
		}
		var arr arrayVal
		switch a := av.(type) {
		case arrayVal:
			arr = a
		case string, []byte:
			et := &Type{Kind: kText}
			if hintL != nil {
				et = elemType(hintL)
			}
			at := *et
			at.Array = true
			p, err := coerce(a, &at)
			if err != nil {
				return nil, err
			}
			arr = p.(arrayVal)
		default:
			return nil, errf("type", "op ANY/ALL (array) requires array on right side, got %T", av)
		}
		if l == nil {
			return nil, nil
		}
		sawNull := false
		for _, el := range arr.Elems {
			if el == nil {
				sawNull = true
				continue
			}
			c, ok := compare(l, el)
			eq := equalValues(l, el)
			hit := false
			switch x.op {
			case "=":
				hit = eq
			case "<>":
				hit = !eq
			case "<":
				hit = ok && c < 0
			case ">":
				hit = ok && c > 0
			case "<=":
				hit = ok && c <= 0
			case ">=":
				hit = ok && c >= 0
			}
			if hit {
				return true, nil
			}
		}
		if sawNull {
			return nil, nil
		}
		return false, nil
	case eIn:
		l, err := db.eval(x.l, t, row, args)
		if err != nil {
			return nil, err
		}
		if l == nil {
			return nil, nil
		}
		hint := typeHint(x.l, t)
		sawNull := false
		for _, it := range x.list {
			v, err := db.evalTyped(it, t, row, args, hint)
			if err != nil {
				return nil, err
			}
			if v == nil {
				sawNull = true
				continue
			}
			if equalValues(l, v) {
				return !x.not, nil
			}
		}
		if sawNull {
			return nil, nil
		}
		return x.not, nil
	case eCast:
		v, err := db.eval(x.e, t, row, args)
		if err != nil || v == nil {
			return nil, err
		}
		ty, err := db.resolveType(x.typ)
		if err != nil {
			return nil, err
		}
		return coerce(v, ty)
	case eRow:
		out := compVal{}
		for _, it := range x.items {
			v, err := db.eval(it, t, row, args)
			if err != nil {
				return nil, err
			}
			out.Fields = append(out.Fields, v)
		}
		return out, nil
	case eFunc:
		var vals []any
		for _, a := range x.args {
			v, err := db.eval(a, t, row, args)
			if err != nil {
				return nil, err
			}
			vals = append(vals, v)
		}
		if db.funcs[x.name] && !builtins[x.name] {
			// user-defined validation functions are opaque: their semantics
			// is another property's business
			return true, nil
		}
		switch x.name {
		case "array_length", "cardinality":
			if len(vals) == 0 || vals[0] == nil {
				return nil, nil
			}
			a, ok := vals[0].(arrayVal)
			if !ok {
				return nil, errf("type", "function %s requires an array", x.name)
			}
			if len(a.Elems) == 0 && x.name == "array_length" {
				return nil, nil // PostgreSQL: array_length of an empty array is NULL
			}
			return int64(len(a.Elems)), nil
		case "jsonb_typeof", "json_typeof":
			if len(vals) == 0 || vals[0] == nil {
				return nil, nil
			}
			var d any
			if err := json.Unmarshal([]byte(fmt.Sprint(vals[0])), &d); err != nil {
				return nil, errf("type", "invalid json")
			}
			switch d.(type) {
			case nil:
				return "null", nil
			case bool:
				return "boolean", nil
			case float64:
				return "number", nil
			case string:
				return "string", nil
			case []any:
				return "array", nil
			default:
				return "object", nil
			}
		case "jsonb_array_length":
			if len(vals) == 0 || vals[0] == nil {
				return nil, nil
			}
			var d []any
			if err := json.Unmarshal([]byte(fmt.Sprint(vals[0])), &d); err != nil {
				return nil, errf("type", "cannot get array length of a non-array")
			}
			return int64(len(d)), nil
		case "lower", "upper":
			if len(vals) == 0 || vals[0] == nil {
				return nil, nil
			}
			if x.name == "lower" {
				return strings.ToLower(fmt.Sprint(vals[0])), nil
			}
			return strings.ToUpper(fmt.Sprint(vals[0])), nil
		case "length", "char_length":
			if len(vals) == 0 || vals[0] == nil {
				return nil, nil
			}
			return int64(len([]rune(fmt.Sprint(vals[0])))), nil
		case "coalesce":
			for _, v := range vals {
				if v != nil {
					return v, nil
				}
			}
			return nil, nil
		case "abs":
			if len(vals) == 0 || vals[0] == nil {
				return nil, nil
			}
			switch n := vals[0].(type) {
			case int64:
				if n < 0 {
					return -n, nil
				}
				return n, nil
			case float64:
				if n < 0 {
					return -n, nil
				}
				return n, nil
			}
			return nil, errf("type", "abs of non-number")
		case "now":
			return time.Unix(0, 0).UTC(), nil // the simulator has no clock
		}
		return nil, errf("undefined", "function %s does not exist", x.name)
	}
	return nil, errf("syntax", "unsupported expression %T", e)
}

func compare(a, b any) (int, bool) {
	switch x := a.(type) {
	case int64:
		switch y := b.(type) {
		case int64:
			return cmpOrdered(x, y), true
		case float64:
			return cmpOrdered(float64(x), y), true
		}
	case float64:
		switch y := b.(type) {
		case float64:
			return cmpOrdered(x, y), true
		case int64:
			return cmpOrdered(x, float64(y)), true
		}
	case string:
		if y, ok := b.(string); ok {
			return strings.Compare(x, y), true
		}
	case bool:
		if y, ok := b.(bool); ok {
			xi, yi := 0, 0
			if x {
				xi = 1
			}
			if y {
				yi = 1
			}
			return cmpOrdered(xi, yi), true
		}
	case time.Time:
		if y, ok := b.(time.Time); ok {
			return x.Compare(y), true
		}
	}
	return 0, false
}

func cmpOrdered[T int | int64 | float64](a, b T) int {
	switch {
	case a < b:
		return -1
	case a > b:
		return 1
	}
	return 0
}

func arith(op string, l, r any) (any, *Error) {
	li, lok := l.(int64)
	ri, rok := r.(int64)
	if lok && rok {
		switch op {
		case "+":
			return li + ri, nil
		case "-":
			return li - ri, nil
		case "*":
			return li * ri, nil
		case "/":
			if ri == 0 {
				return nil, errf("type", "division by zero")
			}
			return li / ri, nil
		case "%":
			if ri == 0 {
				return nil, errf("type", "division by zero")
			}
			return li % ri, nil
		}
	}
	toF := func(v any) (float64, bool) {
		switch x := v.(type) {
		case int64:
			return float64(x), true
		case float64:
			return x, true
		}
		return 0, false
	}
	lf, ok1 := toF(l)
	rf, ok2 := toF(r)
	if !ok1 || !ok2 {
		return nil, errf("type", "operator %s is not defined for %T and %T", op, l, r)
	}
	switch op {
	case "+":
		return lf + rf, nil
	case "-":
		return lf - rf, nil
	case "*":
		return lf * rf, nil
	case "/":
		if rf == 0 {
			return nil, errf("type", "division by zero")
		}
		return lf / rf, nil
	}
	return nil, errf("type", "operator %s is not defined for floats", op)
}
