package pgsim

import (
	"strconv"
	"strings"
)

// ---- AST ------------------------------------------------------------------

type expr interface{}

type (
	eLit   struct{ v any }
	eParam struct{ n int }
	eCol   struct{ name string }
	eBin   struct {
		op   string
		l, r expr
	}
	eNot struct{ e expr }
	// eDefault is the keyword DEFAULT in a VALUES list: the column gets its default
	eDefault struct{}
	eIsNull  struct {
		e   expr
		not bool
	}
	eAny struct {
		l   expr
		op  string
		arr expr
	}
	eIn struct {
		l    expr
		list []expr
		not  bool
	}
	eFunc struct {
		name string
		args []expr
	}
	eCast struct {
		e   expr
		typ typeRef
	}
	eRow struct{ items []expr }
)

type typeRef struct {
	name    string
	array   bool
	precise bool
	serial  bool
}

type constraintDef struct {
	name     string
	kind     string // check | unique | primary | foreign
	cols     []string
	check    expr
	refTable string
	refCols  []string
	onDelete string
}

type colDef struct {
	name        string
	typ         typeRef
	notNull     bool
	def         expr
	constraints []constraintDef
}

type (
	createType struct {
		name   string
		fields []colDef
	}
	createTable struct {
		name        string
		cols        []colDef
		constraints []constraintDef
	}
	alterMulti         struct{ actions []any }
	alterAddConstraint struct {
		table string
		c     constraintDef
	}
	alterSetDefault struct {
		table, col string
		def        expr
	}
	createIndex struct {
		unique      bool
		name, table string
		cols        []string
	}
	createFunction struct{ name string }
	orderKey       struct {
		e    expr
		desc bool
	}
	selectStmt struct {
		cols          []expr // nil = *
		table         string
		where         expr
		order         []orderKey
		limit, offset expr
		distinct      bool
	}
	insertStmt struct {
		table     string
		cols      []string
		values    []expr
		returning []expr
		retStar   bool
		// ON CONFLICT [(cols)] DO NOTHING
		onConflictNothing bool
		conflictCols      []string
	}
	setClause struct {
		cols  []string
		exprs []expr
	}
	updateStmt struct {
		table     string
		sets      []setClause
		where     expr
		returning []expr
		retStar   bool
	}
	deleteStmt struct {
		table     string
		where     expr
		returning []expr
		retStar   bool
	}
	copyStmt struct {
		table string
		cols  []string
	}
	noopStmt struct{ what string }
)

// ---- parser ---------------------------------------------------------------

type parser struct {
	toks []token
	pos  int
	src  string
}

func (p *parser) peek() token { return p.toks[p.pos] }
func (p *parser) next() token {
	t := p.toks[p.pos]
	if p.pos < len(p.toks)-1 {
		p.pos++
	}
	return t
}

func (p *parser) isKw(words ...string) bool {
	for i, w := range words {
		if p.pos+i >= len(p.toks) {
			return false
		}
		t := p.toks[p.pos+i]
		if t.kind != tIdent || t.lower != w {
			return false
		}
	}
	return true
}

func (p *parser) acceptKw(words ...string) bool {
	if p.isKw(words...) {
		p.pos += len(words)
		return true
	}
	return false
}

func (p *parser) expectKw(words ...string) *Error {
	if !p.acceptKw(words...) {
		return p.errHere("expected " + strings.ToUpper(strings.Join(words, " ")))
	}
	return nil
}

func (p *parser) isSym(s string) bool {
	t := p.peek()
	return t.kind == tSymbol && t.text == s
}

func (p *parser) acceptSym(s string) bool {
	if p.isSym(s) {
		p.pos++
		return true
	}
	return false
}

func (p *parser) expectSym(s string) *Error {
	if !p.acceptSym(s) {
		return p.errHere("expected '" + s + "'")
	}
	return nil
}

func (p *parser) errHere(msg string) *Error {
	t := p.peek()
	near := t.text
	if t.kind == tEOF {
		near = "end of statement"
	}
	return errf("syntax", "%s at or near %q", msg, near)
}

// ident parses an identifier and returns its folded name.
func (p *parser) ident() (string, *Error) {
	t := p.peek()
	switch t.kind {
	case tIdent:
		p.pos++
		return t.lower, nil
	case tQIdent:
		p.pos++
		return t.text, nil
	}
	return "", p.errHere("expected identifier")
}

func (p *parser) identList() ([]string, *Error) {
	if err := p.expectSym("("); err != nil {
		return nil, err
	}
	if p.isSym(")") {
		return nil, errf("invalid", "syntax error at or near \")\": an empty column list is not valid SQL")
	}
	var out []string
	for {
		id, err := p.ident()
		if err != nil {
			return nil, err
		}
		out = append(out, id)
		if p.acceptSym(",") {
			continue
		}
		break
	}
	return out, p.expectSym(")")
}

// tableRef parses [schema .] table [[AS] alias]; the schema (only `public`
// makes sense here) and the alias are dropped: statements have one table, a
// qualified column names it either way.
func (p *parser) tableRef() (string, *Error) {
	name, err := p.ident()
	if err != nil {
		return "", err
	}
	if p.isSym(".") {
		p.pos++
		if name, err = p.ident(); err != nil {
			return "", err
		}
	}
	if p.acceptKw("as") {
		if _, err := p.ident(); err != nil {
			return "", err
		}
		return name, nil
	}
	if t := p.peek(); t.kind == tIdent {
		switch t.lower {
		case "where", "set", "returning", "order", "limit", "offset", "for", "using", "values", "from", "add", "alter", "on", "group", "join", "inner", "left", "default", "only":
		default:
			if !p.isSymAt(1, "(") { // (INSERT INTO t (cols): no alias there)
				p.pos++
			}
		}
	}
	return name, nil
}

func (p *parser) isSymAt(off int, s string) bool {
	if p.pos+off >= len(p.toks) {
		return false
	}
	t := p.toks[p.pos+off]
	return t.kind == tSymbol && t.text == s
}

func parseStatement(src string) (any, *Error) {
	toks, err := lex(src)
	if err != nil {
		return nil, err
	}
	// a list that ends in a comma, starts with one or holds two in a row is not SQL
	for i := 0; i+1 < len(toks); i++ {
		a, b := toks[i], toks[i+1]
		if a.kind != tSymbol {
			continue
		}
		if a.text == "," {
			clause := b.kind == tIdent && (b.lower == "from" || b.lower == "where" || b.lower == "returning" || b.lower == "values" || b.lower == "set")
			if b.kind == tEOF || clause || (b.kind == tSymbol && (b.text == ")" || b.text == "," || b.text == ";" || b.text == "]")) {
				return nil, errf("invalid", "syntax error at or near %q: a list item is missing after the comma", b.text)
			}
		}
		if (a.text == "(" || a.text == "[") && b.kind == tSymbol && b.text == "," {
			return nil, errf("invalid", "syntax error at or near \",\": a list item is missing before the comma")
		}
	}
	p := &parser{toks: toks, src: src}
	st, err := p.statement()
	if err != nil {
		return nil, err
	}
	p.acceptSym(";")
	if p.peek().kind != tEOF {
		return nil, p.errHere("unexpected input after statement")
	}
	return st, nil
}

func (p *parser) statement() (any, *Error) {
	switch {
	case p.acceptKw("select"):
		return p.selectStmt()
	case p.acceptKw("insert"):
		return p.insertStmt()
	case p.acceptKw("update"):
		return p.updateStmt()
	case p.acceptKw("delete"):
		return p.deleteStmt()
	case p.acceptKw("copy"):
		return p.copyStmt()
	case p.acceptKw("create"):
		return p.createStmt()
	case p.acceptKw("alter"):
		return p.alterStmt()
	case p.isKw("begin"), p.isKw("commit"), p.isKw("rollback"), p.isKw("set"), p.isKw("comment"), p.isKw("drop"), p.isKw("grant"):
		w := p.peek().lower
		p.pos = len(p.toks) - 1
		return noopStmt{w}, nil
	}
	return nil, p.errHere("unsupported statement")
}

func (p *parser) selectList() ([]expr, bool, *Error) {
	if p.acceptSym("*") {
		return nil, true, nil
	}
	var out []expr
	for {
		e, err := p.expr()
		if err != nil {
			return nil, false, err
		}
		if p.acceptKw("as") {
			if _, err := p.ident(); err != nil {
				return nil, false, err
			}
		}
		out = append(out, e)
		if !p.acceptSym(",") {
			break
		}
	}
	return out, false, nil
}

func (p *parser) selectStmt() (any, *Error) {
	distinct := p.acceptKw("distinct")
	if !distinct {
		p.acceptKw("all")
	}
	cols, _, err := p.selectList()
	if err != nil {
		return nil, err
	}
	s := selectStmt{cols: cols, distinct: distinct}
	if err := p.expectKw("from"); err != nil {
		return nil, err
	}
	if s.table, err = p.tableRef(); err != nil {
		return nil, err
	}
	if p.acceptKw("where") {
		if s.where, err = p.expr(); err != nil {
			return nil, err
		}
	}
	if p.acceptKw("order", "by") {
		for {
			e, err := p.expr()
			if err != nil {
				return nil, err
			}
			desc := false
			if p.acceptKw("desc") {
				desc = true
			} else {
				p.acceptKw("asc")
			}
			if p.acceptKw("nulls") {
				if !p.acceptKw("first") && !p.acceptKw("last") {
					return nil, p.errHere("expected FIRST or LAST")
				}
			}
			s.order = append(s.order, orderKey{e, desc})
			if !p.acceptSym(",") {
				break
			}
		}
	}
	for p.isKw("limit") || p.isKw("offset") {
		isLimit := p.isKw("limit")
		p.pos++
		e, err := p.expr()
		if err != nil {
			return nil, err
		}
		if isLimit {
			s.limit = e
		} else {
			s.offset = e
		}
	}
	if p.acceptKw("for") {
		if !p.acceptKw("update") && !p.acceptKw("share") && !p.acceptKw("no", "key", "update") && !p.acceptKw("key", "share") {
			return nil, p.errHere("expected a locking clause")
		}
	}
	if p.isKw("group") || p.isKw("join") || p.isKw("inner") || p.isKw("left") || p.isSym(",") || p.isKw("having") || p.isKw("union") {
		return nil, p.errHere("SELECT clause not supported by the simulator")
	}
	return s, nil
}

func (p *parser) returning() ([]expr, bool, *Error) {
	if !p.acceptKw("returning") {
		return nil, false, nil
	}
	cols, star, err := p.selectList()
	return cols, star, err
}

func (p *parser) insertStmt() (any, *Error) {
	if err := p.expectKw("into"); err != nil {
		return nil, err
	}
	var s insertStmt
	var err *Error
	if s.table, err = p.tableRef(); err != nil {
		return nil, err
	}
	if p.isSym("(") {
		if s.cols, err = p.identList(); err != nil {
			return nil, err
		}
	}
	if p.acceptKw("default", "values") {
		if s.returning, s.retStar, err = p.returning(); err != nil {
			return nil, err
		}
		s.cols = []string{}
		return s, nil
	}
	if err := p.expectKw("values"); err != nil {
		return nil, err
	}
	if err := p.expectSym("("); err != nil {
		return nil, err
	}
	if p.isSym(")") {
		return nil, errf("invalid", "syntax error at or near \")\": an empty VALUES list is not valid SQL")
	}
	for {
		if p.acceptKw("default") {
			s.values = append(s.values, eDefault{})
		} else {
			e, err := p.expr()
			if err != nil {
				return nil, err
			}
			s.values = append(s.values, e)
		}
		if !p.acceptSym(",") {
			break
		}
	}
	if err := p.expectSym(")"); err != nil {
		return nil, err
	}
	if p.isSym(",") {
		return nil, p.errHere("multi-row INSERT not supported by the simulator")
	}
	if p.acceptKw("on", "conflict") {
		if p.isSym("(") {
			if s.conflictCols, err = p.identList(); err != nil {
				return nil, err
			}
		}
		if err := p.expectKw("do"); err != nil {
			return nil, err
		}
		if !p.acceptKw("nothing") {
			return nil, p.errHere("ON CONFLICT DO UPDATE not supported by the simulator")
		}
		s.onConflictNothing = true
	}
	if s.returning, s.retStar, err = p.returning(); err != nil {
		return nil, err
	}
	return s, nil
}

func (p *parser) updateStmt() (any, *Error) {
	var s updateStmt
	var err *Error
	if s.table, err = p.tableRef(); err != nil {
		return nil, err
	}
	if err := p.expectKw("set"); err != nil {
		return nil, err
	}
	for {
		var sc setClause
		if p.isSym("(") {
			if sc.cols, err = p.identList(); err != nil {
				return nil, err
			}
			if err := p.expectSym("="); err != nil {
				return nil, err
			}
			hasRow := p.acceptKw("row")
			if len(sc.cols) == 1 && !hasRow {
				// PostgreSQL >= 10 (release notes, "standard row constructor
				// syntax in UPDATE ... SET (column_list) = row_constructor"): with a
				// single column the right-hand side is a parenthesised expression,
				// not a row constructor, unless it says ROW
				return nil, errf("invalid", "source for a multiple-column UPDATE item must be a sub-SELECT or ROW() expression")
			}
			if err := p.expectSym("("); err != nil {
				return nil, err
			}
			for {
				e, err := p.expr()
				if err != nil {
					return nil, err
				}
				sc.exprs = append(sc.exprs, e)
				if !p.acceptSym(",") {
					break
				}
			}
			if err := p.expectSym(")"); err != nil {
				return nil, err
			}
		} else {
			c, err := p.ident()
			if err != nil {
				return nil, err
			}
			if err := p.expectSym("="); err != nil {
				return nil, err
			}
			e, err := p.expr()
			if err != nil {
				return nil, err
			}
			sc.cols, sc.exprs = []string{c}, []expr{e}
		}
		s.sets = append(s.sets, sc)
		if !p.acceptSym(",") {
			break
		}
	}
	if p.acceptKw("where") {
		if s.where, err = p.expr(); err != nil {
			return nil, err
		}
	}
	if s.returning, s.retStar, err = p.returning(); err != nil {
		return nil, err
	}
	return s, nil
}

func (p *parser) deleteStmt() (any, *Error) {
	if err := p.expectKw("from"); err != nil {
		return nil, err
	}
	var s deleteStmt
	var err *Error
	if s.table, err = p.tableRef(); err != nil {
		return nil, err
	}
	if p.acceptKw("where") {
		if s.where, err = p.expr(); err != nil {
			return nil, err
		}
	}
	if s.returning, s.retStar, err = p.returning(); err != nil {
		return nil, err
	}
	return s, nil
}

func (p *parser) copyStmt() (any, *Error) {
	var s copyStmt
	var err *Error
	if s.table, err = p.tableRef(); err != nil {
		return nil, err
	}
	if p.isSym("(") {
		if s.cols, err = p.identList(); err != nil {
			return nil, err
		}
	}
	if err := p.expectKw("from"); err != nil {
		return nil, err
	}
	if err := p.expectKw("stdin"); err != nil {
		return nil, err
	}
	return s, nil
}

func (p *parser) typeRef() (typeRef, *Error) {
	var t typeRef
	tok := p.peek()
	if tok.kind == tQIdent {
		p.pos++
		t.name = tok.text
	} else if tok.kind == tIdent {
		p.pos++
		t.name = tok.lower
		switch t.name {
		case "timestamp", "time", "timestamptz":
			if p.acceptSym("(") {
				n := p.next()
				if n.kind != tNumber {
					return t, p.errHere("expected precision")
				}
				if n.text == "0" {
					t.precise = true
				}
				if err := p.expectSym(")"); err != nil {
					return t, err
				}
			}
			if p.acceptKw("with", "time", "zone") || p.acceptKw("without", "time", "zone") {
			}
			t.name = "timestamp"
		case "double":
			if err := p.expectKw("precision"); err != nil {
				return t, err
			}
			t.name = "double precision"
		case "character":
			p.acceptKw("varying")
			t.name = "text"
		case "serial", "bigserial", "smallserial":
			t.serial = true
		}
		if (t.name == "varchar" || t.name == "text" || t.name == "char" || t.name == "numeric" || t.name == "decimal") && p.acceptSym("(") {
			for !p.isSym(")") && p.peek().kind != tEOF {
				p.pos++
			}
			if err := p.expectSym(")"); err != nil {
				return t, err
			}
		}
	} else {
		return t, p.errHere("expected type name")
	}
	if p.acceptSym("[") {
		if p.peek().kind == tNumber {
			p.pos++
		}
		if err := p.expectSym("]"); err != nil {
			return t, err
		}
		t.array = true
	}
	return t, nil
}

func (p *parser) onDelete() (string, *Error) {
	action := ""
	for p.isKw("on") {
		p.pos++
		which := p.next().lower // delete | update
		var a string
		switch {
		case p.acceptKw("cascade"):
			a = "CASCADE"
		case p.acceptKw("set", "null"):
			a = "SET NULL"
		case p.acceptKw("set", "default"):
			a = "SET DEFAULT"
		case p.acceptKw("restrict"):
			a = "RESTRICT"
		case p.acceptKw("no", "action"):
			a = ""
		default:
			return "", p.errHere("expected referential action")
		}
		if which == "delete" {
			action = a
		}
	}
	return action, nil
}

// constraint parses [CONSTRAINT name] CHECK|UNIQUE|PRIMARY KEY|FOREIGN KEY ...
// column is the owning column for inline column constraints ("" for table constraints).
func (p *parser) constraint(column string) (constraintDef, bool, *Error) {
	var c constraintDef
	save := p.pos
	if p.acceptKw("constraint") {
		n, err := p.ident()
		if err != nil {
			return c, false, err
		}
		c.name = n
	}
	var err *Error
	switch {
	case p.acceptKw("check"):
		c.kind = "check"
		if err := p.expectSym("("); err != nil {
			return c, false, err
		}
		if c.check, err = p.expr(); err != nil {
			return c, false, err
		}
		if err := p.expectSym(")"); err != nil {
			return c, false, err
		}
	case p.acceptKw("unique"):
		c.kind = "unique"
		if column != "" {
			c.cols = []string{column}
		} else if c.cols, err = p.identList(); err != nil {
			return c, false, err
		}
	case p.acceptKw("primary", "key"):
		c.kind = "primary"
		if column != "" {
			c.cols = []string{column}
		} else if c.cols, err = p.identList(); err != nil {
			return c, false, err
		}
	case column == "" && p.acceptKw("foreign", "key"):
		c.kind = "foreign"
		if c.cols, err = p.identList(); err != nil {
			return c, false, err
		}
		if err := p.expectKw("references"); err != nil {
			return c, false, err
		}
		if c.refTable, err = p.ident(); err != nil {
			return c, false, err
		}
		if p.isSym("(") {
			if c.refCols, err = p.identList(); err != nil {
				return c, false, err
			}
		}
		if c.onDelete, err = p.onDelete(); err != nil {
			return c, false, err
		}
	case column != "" && p.acceptKw("references"):
		c.kind = "foreign"
		c.cols = []string{column}
		if c.refTable, err = p.ident(); err != nil {
			return c, false, err
		}
		if p.isSym("(") {
			if c.refCols, err = p.identList(); err != nil {
				return c, false, err
			}
		}
		if c.onDelete, err = p.onDelete(); err != nil {
			return c, false, err
		}
	default:
		p.pos = save
		return c, false, nil
	}
	// DEFERRABLE etc.
	for p.acceptKw("deferrable") || p.acceptKw("not", "deferrable") || p.acceptKw("initially", "deferred") || p.acceptKw("initially", "immediate") || p.acceptKw("not", "valid") {
	}
	return c, true, nil
}

func (p *parser) colDef() (colDef, *Error) {
	var c colDef
	var err *Error
	if c.name, err = p.ident(); err != nil {
		return c, err
	}
	if c.typ, err = p.typeRef(); err != nil {
		return c, err
	}
	for {
		switch {
		case p.acceptKw("not", "null"):
			c.notNull = true
		case p.acceptKw("null"):
		case p.acceptKw("generated"):
			if !p.acceptKw("by", "default") && !p.acceptKw("always") {
				return c, p.errHere("expected BY DEFAULT or ALWAYS")
			}
			if err := p.expectKw("as"); err != nil {
				return c, err
			}
			if err := p.expectKw("identity"); err != nil {
				return c, err
			}
			c.typ.serial = true
		case p.acceptKw("default"):
			if c.def, err = p.exprNoAnd(); err != nil {
				return c, err
			}
		default:
			cd, ok, err := p.constraint(c.name)
			if err != nil {
				return c, err
			}
			if !ok {
				return c, nil
			}
			c.constraints = append(c.constraints, cd)
		}
	}
}

func (p *parser) createStmt() (any, *Error) {
	if p.acceptKw("or", "replace") {
	}
	switch {
	case p.acceptKw("type"):
		var s createType
		var err *Error
		if s.name, err = p.ident(); err != nil {
			return nil, err
		}
		if err := p.expectKw("as"); err != nil {
			return nil, err
		}
		if p.acceptKw("enum") {
			return nil, p.errHere("enum types are not supported by the simulator")
		}
		if err := p.expectSym("("); err != nil {
			return nil, err
		}
		for {
			var f colDef
			if f.name, err = p.ident(); err != nil {
				return nil, err
			}
			if f.typ, err = p.typeRef(); err != nil {
				return nil, err
			}
			s.fields = append(s.fields, f)
			if !p.acceptSym(",") {
				break
			}
		}
		return s, p.expectSym(")")
	case p.acceptKw("table"):
		p.acceptKw("if", "not", "exists")
		var s createTable
		var err *Error
		if s.name, err = p.ident(); err != nil {
			return nil, err
		}
		if p.acceptSym(".") { // schema-qualified: the schema is dropped
			if s.name, err = p.ident(); err != nil {
				return nil, err
			}
		}
		if err := p.expectSym("("); err != nil {
			return nil, err
		}
		for {
			cd, ok, err := p.constraint("")
			if err != nil {
				return nil, err
			}
			if ok {
				s.constraints = append(s.constraints, cd)
			} else {
				c, err := p.colDef()
				if err != nil {
					return nil, err
				}
				s.cols = append(s.cols, c)
			}
			if !p.acceptSym(",") {
				break
			}
		}
		return s, p.expectSym(")")
	case p.isKw("unique", "index"), p.isKw("index"):
		var s createIndex
		s.unique = p.acceptKw("unique")
		p.acceptKw("index")
		p.acceptKw("if", "not", "exists")
		var err *Error
		if !p.isKw("on") {
			if s.name, err = p.ident(); err != nil {
				return nil, err
			}
		}
		if err := p.expectKw("on"); err != nil {
			return nil, err
		}
		if s.table, err = p.tableRef(); err != nil {
			return nil, err
		}
		if p.acceptKw("using") {
			p.pos++
		}
		if s.cols, err = p.identList(); err != nil {
			return nil, err
		}
		return s, nil
	case p.acceptKw("function"):
		name, err := p.ident()
		if err != nil {
			return nil, err
		}
		// signature, body ($$...$$) and attributes are kept opaque
		sawBody := false
		for p.peek().kind != tEOF {
			if p.peek().kind == tDollar || p.peek().kind == tString {
				sawBody = true
			}
			if p.isSym(";") {
				break
			}
			p.pos++
		}
		if !sawBody {
			return nil, p.errHere("function without body")
		}
		return createFunction{name: name}, nil
	case p.isKw("extension"), p.isKw("sequence"), p.isKw("schema"), p.isKw("view"), p.isKw("trigger"):
		p.pos = len(p.toks) - 1
		return noopStmt{"create"}, nil
	}
	return nil, p.errHere("unsupported CREATE statement")
}

func (p *parser) alterStmt() (any, *Error) {
	if err := p.expectKw("table"); err != nil {
		return nil, err
	}
	p.acceptKw("only")
	table, err := p.tableRef()
	if err != nil {
		return nil, err
	}
	var actions []any
	for {
		switch {
		case p.acceptKw("add"):
			c, ok, err := p.constraint("")
			if err != nil {
				return nil, err
			}
			if !ok {
				return nil, p.errHere("unsupported ALTER TABLE ADD")
			}
			actions = append(actions, alterAddConstraint{table: table, c: c})
		case p.acceptKw("alter"):
			p.acceptKw("column")
			col, err := p.ident()
			if err != nil {
				return nil, err
			}
			if err := p.expectKw("set", "default"); err != nil {
				return nil, err
			}
			e, err := p.expr()
			if err != nil {
				return nil, err
			}
			actions = append(actions, alterSetDefault{table: table, col: col, def: e})
		default:
			return nil, p.errHere("unsupported ALTER TABLE action")
		}
		// ALTER TABLE t action [, action ...]
		if !p.acceptSym(",") {
			break
		}
	}
	if len(actions) == 1 {
		return actions[0], nil
	}
	return alterMulti{actions}, nil
}

// ---- expressions ----------------------------------------------------------

func (p *parser) expr() (expr, *Error) { return p.orExpr() }

// exprNoAnd parses a DEFAULT value: a primary expression with casts, so that
// a following NOT NULL / CHECK is not swallowed.
func (p *parser) exprNoAnd() (expr, *Error) { return p.castExpr() }

func (p *parser) orExpr() (expr, *Error) {
	l, err := p.andExpr()
	if err != nil {
		return nil, err
	}
	for p.acceptKw("or") {
		r, err := p.andExpr()
		if err != nil {
			return nil, err
		}
		l = eBin{"or", l, r}
	}
	return l, nil
}

func (p *parser) andExpr() (expr, *Error) {
	l, err := p.notExpr()
	if err != nil {
		return nil, err
	}
	for p.acceptKw("and") {
		r, err := p.notExpr()
		if err != nil {
			return nil, err
		}
		l = eBin{"and", l, r}
	}
	return l, nil
}

func (p *parser) notExpr() (expr, *Error) {
	if p.acceptKw("not") {
		e, err := p.notExpr()
		if err != nil {
			return nil, err
		}
		return eNot{e}, nil
	}
	return p.cmpExpr()
}

func (p *parser) cmpExpr() (expr, *Error) {
	l, err := p.addExpr()
	if err != nil {
		return nil, err
	}
	for {
		switch {
		case p.isKw("is"):
			p.pos++
			not := p.acceptKw("not")
			switch {
			case p.acceptKw("null"):
				l = eIsNull{l, not}
			case p.acceptKw("true"):
				l = eBin{"=", l, eLit{!not}}
			case p.acceptKw("false"):
				l = eBin{"=", l, eLit{not}}
			case p.isKw("distinct"):
				// a IS [NOT] DISTINCT FROM b: null-safe comparison, never null itself
				p.pos++
				if err := p.expectKw("from"); err != nil {
					return nil, err
				}
				r, err := p.addExpr()
				if err != nil {
					return nil, err
				}
				same := eBin{"or",
					eBin{"and", eIsNull{l, false}, eIsNull{r, false}},
					eBin{"and", eBin{"and", eIsNull{l, true}, eIsNull{r, true}}, eBin{"=", l, r}}}
				if not {
					l = same
				} else {
					l = eNot{same}
				}
			default:
				return nil, p.errHere("expected NULL after IS")
			}
		case p.isKw("between") || p.isKw("not", "between"):
			not := p.acceptKw("not")
			p.acceptKw("between")
			lo, err := p.addExpr()
			if err != nil {
				return nil, err
			}
			if err := p.expectKw("and"); err != nil {
				return nil, err
			}
			hi, err := p.addExpr()
			if err != nil {
				return nil, err
			}
			var e expr = eBin{"and", eBin{">=", l, lo}, eBin{"<=", l, hi}}
			if not {
				e = eNot{e}
			}
			l = e
		case p.isKw("in") || p.isKw("not", "in"):
			not := p.acceptKw("not")
			p.acceptKw("in")
			if err := p.expectSym("("); err != nil {
				return nil, err
			}
			var list []expr
			for {
				e, err := p.expr()
				if err != nil {
					return nil, err
				}
				list = append(list, e)
				if !p.acceptSym(",") {
					break
				}
			}
			if err := p.expectSym(")"); err != nil {
				return nil, err
			}
			l = eIn{l, list, not}
		case p.peek().kind == tSymbol && isCmp(p.peek().text):
			op := p.next().text
			if op == "!=" {
				op = "<>"
			}
			if p.acceptKw("any") || p.acceptKw("some") {
				if err := p.expectSym("("); err != nil {
					return nil, err
				}
				arr, err := p.expr()
				if err != nil {
					return nil, err
				}
				if err := p.expectSym(")"); err != nil {
					return nil, err
				}
				l = eAny{l, op, arr}
				continue
			}
			r, err := p.addExpr()
			if err != nil {
				return nil, err
			}
			l = eBin{op, l, r}
		default:
			return l, nil
		}
	}
}

func isCmp(s string) bool {
	switch s {
	case "=", "<>", "!=", "<", ">", "<=", ">=":
		return true
	}
	return false
}

func (p *parser) addExpr() (expr, *Error) {
	l, err := p.mulExpr()
	if err != nil {
		return nil, err
	}
	for p.isSym("+") || p.isSym("-") || p.isSym("||") {
		op := p.next().text
		r, err := p.mulExpr()
		if err != nil {
			return nil, err
		}
		l = eBin{op, l, r}
	}
	return l, nil
}

func (p *parser) mulExpr() (expr, *Error) {
	l, err := p.unaryExpr()
	if err != nil {
		return nil, err
	}
	for p.isSym("*") || p.isSym("/") || p.isSym("%") {
		op := p.next().text
		r, err := p.unaryExpr()
		if err != nil {
			return nil, err
		}
		l = eBin{op, l, r}
	}
	return l, nil
}

func (p *parser) unaryExpr() (expr, *Error) {
	if p.acceptSym("-") {
		e, err := p.unaryExpr()
		if err != nil {
			return nil, err
		}
		return eBin{"-", eLit{int64(0)}, e}, nil
	}
	p.acceptSym("+")
	return p.castExpr()
}

func (p *parser) castExpr() (expr, *Error) {
	e, err := p.primary()
	if err != nil {
		return nil, err
	}
	for p.acceptSym("::") {
		t, err := p.typeRef()
		if err != nil {
			return nil, err
		}
		e = eCast{e, t}
	}
	return e, nil
}

func (p *parser) primary() (expr, *Error) {
	t := p.peek()
	switch t.kind {
	case tNumber:
		p.pos++
		if strings.ContainsAny(t.text, ".eE") {
			f, err := strconv.ParseFloat(t.text, 64)
			if err != nil {
				return nil, errf("syntax", "bad number %q", t.text)
			}
			return eLit{f}, nil
		}
		n, err := strconv.ParseInt(t.text, 10, 64)
		if err != nil {
			return nil, errf("syntax", "bad number %q", t.text)
		}
		return eLit{n}, nil
	case tString:
		p.pos++
		return eLit{t.text}, nil
	case tParam:
		p.pos++
		n, _ := strconv.Atoi(t.text)
		return eParam{n}, nil
	case tSymbol:
		if t.text == "(" {
			p.pos++
			e, err := p.expr()
			if err != nil {
				return nil, err
			}
			if p.isSym(",") {
				items := []expr{e}
				for p.acceptSym(",") {
					x, err := p.expr()
					if err != nil {
						return nil, err
					}
					items = append(items, x)
				}
				e = eRow{items}
			}
			return e, p.expectSym(")")
		}
	case tQIdent:
		p.pos++
		return eCol{t.text}, nil
	case tIdent:
		switch t.lower {
		case "null":
			p.pos++
			return eLit{nil}, nil
		case "true":
			p.pos++
			return eLit{true}, nil
		case "false":
			p.pos++
			return eLit{false}, nil
		case "select", "from", "where", "and", "or", "returning", "values", "set":
			return nil, p.errHere("unexpected keyword")
		}
		p.pos++
		if p.acceptSym("(") {
			f := eFunc{name: t.lower}
			if !p.isSym(")") {
				for {
					a, err := p.expr()
					if err != nil {
						return nil, err
					}
					f.args = append(f.args, a)
					if !p.acceptSym(",") {
						break
					}
				}
			}
			return f, p.expectSym(")")
		}
		if p.acceptSym(".") { // table.column
			c, err := p.ident()
			if err != nil {
				return nil, err
			}
			return eCol{c}, nil
		}
		return eCol{t.lower}, nil
	}
	return nil, p.errHere("expected expression")
}
