package pgsim

import (
	"fmt"
	"sort"
	"strings"
)

type Column struct {
	Name    string
	Type    *Type
	NotNull bool
	Default expr
	Serial  bool
}

type fkey struct {
	name     string
	cols     []int
	refTable string
	refCols  []string // resolved lazily (forward references are legal while loading)
	onDelete string
}

type uniq struct {
	name    string
	cols    []int
	primary bool
}

type check struct {
	name string
	e    expr
}

type Table struct {
	Name    string
	Cols    []*Column
	idx     map[string]int
	Rows    [][]any
	seq     int64
	uniques []uniq
	checks  []check
	fkeys   []fkey
}

// DB is one simulated database.
type DB struct {
	types  map[string]*CompositeType
	tables map[string]*Table
	funcs  map[string]bool
	// Stats
	Statements int64
	Texts      map[string]int64
}

func NewDB() *DB {
	return &DB{types: map[string]*CompositeType{}, tables: map[string]*Table{}, funcs: map[string]bool{}, Texts: map[string]int64{}}
}

// snapshot copies the mutable state (rows, sequences stay as they are: PostgreSQL
// does not roll sequences back either).
type snapshot map[string][][]any

func (db *DB) snapshot() snapshot {
	s := snapshot{}
	for n, t := range db.tables {
		rows := make([][]any, len(t.Rows))
		for i, r := range t.Rows {
			rows[i] = append([]any(nil), r...)
		}
		s[n] = rows
	}
	return s
}

func (db *DB) restore(s snapshot) {
	for n, t := range db.tables {
		t.Rows = s[n]
	}
}

// TableNames returns the tables in name order.
func (db *DB) TableNames() []string {
	var ns []string
	for n := range db.tables {
		ns = append(ns, n)
	}
	sort.Strings(ns)
	return ns
}

// RowCount is ground truth for the harness.
func (db *DB) RowCount(table string) int {
	if t := db.tables[table]; t != nil {
		return len(t.Rows)
	}
	return -1
}

func (db *DB) resolveType(r typeRef) (*Type, *Error) {
	t := &Type{Array: r.array, Name: r.name, Precise: r.precise}
	switch r.name {
	case "boolean", "bool":
		t.Kind = kBool
	case "smallint", "int2", "smallserial":
		t.Kind = kInt2
	case "integer", "int", "int4", "serial":
		t.Kind = kInt4
	case "bigint", "int8", "bigserial":
		t.Kind = kInt8
	case "real", "float4":
		t.Kind = kFloat4
	case "double precision", "float8", "float", "numeric", "decimal":
		t.Kind = kFloat8
	case "text", "varchar", "char", "citext", "uuid":
		t.Kind = kText
	case "timestamp":
		t.Kind = kTimestamp
	case "date":
		t.Kind = kDate
	case "bytea":
		t.Kind = kBytea
	case "jsonb", "json":
		t.Kind = kJSON
	default:
		if c, ok := db.types[r.name]; ok {
			t.Kind = kComposite
			t.Comp = c
		} else {
			return nil, errf("undefined", "type %q does not exist", r.name)
		}
	}
	return t, nil
}

func (t *Table) col(name string) (int, *Error) {
	if i, ok := t.idx[name]; ok {
		return i, nil
	}
	return -1, errf("undefined", "column %q of relation %q does not exist", name, t.Name)
}

func (t *Table) colList(names []string) ([]int, *Error) {
	out := make([]int, len(names))
	for i, n := range names {
		c, err := t.col(n)
		if err != nil {
			return nil, err
		}
		out[i] = c
	}
	return out, nil
}

func (db *DB) table(name string) (*Table, *Error) {
	if t, ok := db.tables[name]; ok {
		return t, nil
	}
	return nil, errf("undefined", "relation %q does not exist", name)
}

func (t *Table) primaryKey() []int {
	for _, u := range t.uniques {
		if u.primary {
			return u.cols
		}
	}
	return nil
}

func (db *DB) addConstraint(t *Table, c constraintDef) *Error {
	switch c.kind {
	case "check":
		if err := db.validate(c.check, t, nil); err != nil {
			return err
		}
		t.checks = append(t.checks, check{c.name, c.check})
		for _, r := range t.Rows {
			if err := db.checkRow(t, r); err != nil {
				return err
			}
		}
	case "unique", "primary":
		cols, err := t.colList(c.cols)
		if err != nil {
			return err
		}
		if c.kind == "primary" {
			if t.primaryKey() != nil {
				return errf("constraint", "multiple primary keys for table %q are not allowed", t.Name)
			}
			for _, ci := range cols {
				t.Cols[ci].NotNull = true
			}
		}
		t.uniques = append(t.uniques, uniq{c.name, cols, c.kind == "primary"})
		if err := db.checkUniques(t); err != nil {
			return err
		}
	case "foreign":
		cols, err := t.colList(c.cols)
		if err != nil {
			return err
		}
		ref, err := db.table(c.refTable)
		if err != nil {
			return err
		}
		refCols := c.refCols
		if len(refCols) == 0 {
			pk := ref.primaryKey()
			if pk == nil {
				return errf("constraint", "there is no primary key for referenced table %q", ref.Name)
			}
			for _, ci := range pk {
				refCols = append(refCols, ref.Cols[ci].Name)
			}
		}
		rc, err := ref.colList(refCols)
		if err != nil {
			return err
		}
		if len(rc) != len(cols) {
			return errf("constraint", "number of referencing and referenced columns for foreign key disagree")
		}
		// the referenced columns must be covered by a unique constraint
		covered := false
		for _, u := range ref.uniques {
			if sameSet(u.cols, rc) {
				covered = true
			}
		}
		if !covered {
			return errf("constraint", "there is no unique constraint matching given keys for referenced table %q", ref.Name)
		}
		t.fkeys = append(t.fkeys, fkey{name: c.name, cols: cols, refTable: ref.Name, refCols: refCols, onDelete: c.onDelete})
	}
	return nil
}

func sameSet(a, b []int) bool {
	if len(a) != len(b) {
		return false
	}
	m := map[int]bool{}
	for _, x := range a {
		m[x] = true
	}
	for _, x := range b {
		if !m[x] {
			return false
		}
	}
	return true
}

// ExecScript loads a DDL script statement by statement.
func (db *DB) ExecScript(script string) *Error {
	stmts, err := splitStatements(script)
	if err != nil {
		return err
	}
	for _, s := range stmts {
		if _, _, err := db.Exec(s, nil); err != nil {
			return err
		}
	}
	return nil
}

// Result of a statement.
type Result struct {
	Cols     []string
	Types    []*Type
	Rows     [][]any
	Affected int64

	broken     bool // injected: the result set fails after breakAfter rows
	breakAfter int
}

// applyAlter applies one action of an ALTER TABLE.
func (db *DB) applyAlter(a any) *Error {
	switch s := a.(type) {
	case alterAddConstraint:
		t, err := db.table(s.table)
		if err != nil {
			return err
		}
		return db.addConstraint(t, s.c)
	case alterSetDefault:
		t, err := db.table(s.table)
		if err != nil {
			return err
		}
		ci, err := t.col(s.col)
		if err != nil {
			return err
		}
		if err := db.validate(s.def, nil, nil); err != nil {
			return err
		}
		t.Cols[ci].Default = s.def
		return nil
	}
	return errf("syntax", "unsupported ALTER TABLE action %T", a)
}

// Exec parses and executes one statement with positional arguments.
func (db *DB) Exec(sql string, args []any) (res *Result, kind string, e *Error) {
	defer func() {
		if e != nil && e.Stmt == "" {
			e.Stmt = sql
		}
	}()
	st, err := parseStatement(sql)
	if err != nil {
		return nil, "", err
	}
	db.Statements++
	if len(db.Texts) < 4096 {
		db.Texts[strings.Join(strings.Fields(sql), " ")]++
	}
	switch s := st.(type) {
	case noopStmt:
		return &Result{}, "noop", nil
	case createType:
		if _, dup := db.types[s.name]; dup {
			return nil, "ddl", errf("constraint", "type %q already exists", s.name)
		}
		ct := &CompositeType{Name: s.name}
		for _, f := range s.fields {
			ft, err := db.resolveType(f.typ)
			if err != nil {
				return nil, "ddl", err
			}
			ct.Fields = append(ct.Fields, f.name)
			ct.Types = append(ct.Types, ft)
		}
		db.types[s.name] = ct
		return &Result{}, "ddl", nil
	case createTable:
		if _, dup := db.tables[s.name]; dup {
			return nil, "ddl", errf("constraint", "relation %q already exists", s.name)
		}
		t := &Table{Name: s.name, idx: map[string]int{}}
		var pending []constraintDef
		for _, c := range s.cols {
			if _, dup := t.idx[c.name]; dup {
				return nil, "ddl", errf("constraint", "column %q specified more than once", c.name)
			}
			ty, err := db.resolveType(c.typ)
			if err != nil {
				return nil, "ddl", err
			}
			col := &Column{Name: c.name, Type: ty, NotNull: c.notNull, Default: c.def, Serial: c.typ.serial}
			if col.Serial {
				col.NotNull = true
			}
			t.idx[c.name] = len(t.Cols)
			t.Cols = append(t.Cols, col)
			pending = append(pending, c.constraints...)
		}
		pending = append(pending, s.constraints...)
		db.tables[s.name] = t
		for _, c := range pending {
			if err := db.addConstraint(t, c); err != nil {
				delete(db.tables, s.name)
				return nil, "ddl", err
			}
		}
		return &Result{}, "ddl", nil
	case alterMulti:
		for _, a := range s.actions {
			if err := db.applyAlter(a); err != nil {
				return nil, "ddl", err
			}
		}
		return &Result{}, "ddl", nil
	case alterAddConstraint, alterSetDefault:
		return &Result{}, "ddl", db.applyAlter(s)
	case createIndex:
		t, err := db.table(s.table)
		if err != nil {
			return nil, "ddl", err
		}
		cols, err := t.colList(s.cols)
		if err != nil {
			return nil, "ddl", err
		}
		if s.unique {
			t.uniques = append(t.uniques, uniq{s.name, cols, false})
			if err := db.checkUniques(t); err != nil {
				return nil, "ddl", err
			}
		}
		return &Result{}, "ddl", nil
	case createFunction:
		db.funcs[s.name] = true
		return &Result{}, "ddl", nil
	}
	// DML: placeholder audit first
	if err := auditParams(st, len(args)); err != nil {
		return nil, "dml", err
	}
	snap := db.snapshot()
	var r *Result
	switch s := st.(type) {
	case selectStmt:
		kind = "select"
		r, err = db.execSelect(s, args)
	case insertStmt:
		kind = "insert"
		r, err = db.execInsert(s, args)
	case updateStmt:
		kind = "update"
		r, err = db.execUpdate(s, args)
	case deleteStmt:
		kind = "delete"
		r, err = db.execDelete(s, args)
	case copyStmt:
		return nil, "copy", errf("state", "COPY must be prepared, not executed directly")
	default:
		return nil, "", errf("syntax", "unsupported statement")
	}
	if err != nil {
		db.restore(snap)
		return nil, kind, err
	}
	return r, kind, nil
}

// auditParams requires the placeholders to be exactly $1..$n, n = len(args).
func auditParams(st any, nargs int) *Error {
	used := map[int]bool{}
	var walk func(e expr)
	walk = func(e expr) {
		switch x := e.(type) {
		case eParam:
			used[x.n] = true
		case eBin:
			walk(x.l)
			walk(x.r)
		case eNot:
			walk(x.e)
		case eIsNull:
			walk(x.e)
		case eAny:
			walk(x.l)
			walk(x.arr)
		case eIn:
			walk(x.l)
			for _, i := range x.list {
				walk(i)
			}
		case eFunc:
			for _, a := range x.args {
				walk(a)
			}
		case eCast:
			walk(x.e)
		case eRow:
			for _, i := range x.items {
				walk(i)
			}
		}
	}
	walkAll := func(es []expr) {
		for _, e := range es {
			walk(e)
		}
	}
	switch s := st.(type) {
	case selectStmt:
		walkAll(s.cols)
		walk(s.where)
		for _, k := range s.order {
			walk(k.e)
		}
		walk(s.limit)
		walk(s.offset)
	case insertStmt:
		walkAll(s.values)
		walkAll(s.returning)
	case updateStmt:
		for _, sc := range s.sets {
			walkAll(sc.exprs)
		}
		walk(s.where)
		walkAll(s.returning)
	case deleteStmt:
		walk(s.where)
		walkAll(s.returning)
	}
	max := 0
	for n := range used {
		if n > max {
			max = n
		}
	}
	for n := 1; n <= max; n++ {
		if !used[n] {
			return errf("params", "placeholder $%d is not used although $%d is: placeholders must be numbered 1..n", n, max)
		}
	}
	if used[0] {
		return errf("params", "there is no parameter $0")
	}
	if max != nargs {
		return errf("params", "statement has %d placeholder(s) but %d argument(s) were supplied", max, nargs)
	}
	return nil
}

func (db *DB) checkRow(t *Table, row []any) *Error {
	for i, c := range t.Cols {
		if c.NotNull && row[i] == nil {
			return errf("constraint", "null value in column %q of relation %q violates not-null constraint", c.Name, t.Name)
		}
	}
	for _, ck := range t.checks {
		v, err := db.eval(ck.e, t, row, nil)
		if err != nil {
			return err
		}
		if b, ok := v.(bool); ok && !b {
			return errf("constraint", "new row for relation %q violates check constraint %q", t.Name, ck.name)
		}
	}
	return nil
}

func (db *DB) checkUniques(t *Table) *Error {
	for _, u := range t.uniques {
		seen := map[string]bool{}
		for _, r := range t.Rows {
			var b strings.Builder
			null := false
			for _, ci := range u.cols {
				if r[ci] == nil {
					null = true
				}
				b.WriteString(keyOf(r[ci]))
				b.WriteByte(0)
			}
			if null {
				continue // NULLs are distinct
			}
			if seen[b.String()] {
				var names []string
				for _, ci := range u.cols {
					names = append(names, t.Cols[ci].Name)
				}
				return errf("constraint", "duplicate key value violates unique constraint on %s(%s)", t.Name, strings.Join(names, ", "))
			}
			seen[b.String()] = true
		}
	}
	return nil
}

// checkOutgoing verifies the foreign keys of one row of t.
func (db *DB) checkOutgoing(t *Table, row []any) *Error {
	for _, fk := range t.fkeys {
		null := false
		for _, ci := range fk.cols {
			if row[ci] == nil {
				null = true
			}
		}
		if null {
			continue
		}
		ref := db.tables[fk.refTable]
		rc, err := ref.colList(fk.refCols)
		if err != nil {
			return err
		}
		found := false
		for _, rr := range ref.Rows {
			match := true
			for k, ci := range fk.cols {
				if rr[rc[k]] == nil || !equalValues(row[ci], rr[rc[k]]) {
					match = false
					break
				}
			}
			if match {
				found = true
				break
			}
		}
		if !found {
			return errf("constraint", "insert or update on table %q violates foreign key constraint to %q", t.Name, fk.refTable)
		}
	}
	return nil
}

func (db *DB) filter(t *Table, where expr, args []any) ([]int, *Error) {
	var out []int
	for i, r := range t.Rows {
		if where == nil {
			out = append(out, i)
			continue
		}
		v, err := db.eval(where, t, r, args)
		if err != nil {
			return nil, err
		}
		if b, ok := v.(bool); ok && b {
			out = append(out, i)
		} else if v != nil && !ok {
			return nil, errf("type", "argument of WHERE must be type boolean")
		}
	}
	return out, nil
}

func (db *DB) project(t *Table, cols []expr, star bool, rows [][]any, args []any) (*Result, *Error) {
	res := &Result{}
	if star || cols == nil {
		for _, c := range t.Cols {
			res.Cols = append(res.Cols, c.Name)
			res.Types = append(res.Types, c.Type)
		}
		for _, r := range rows {
			res.Rows = append(res.Rows, append([]any(nil), r...))
		}
		return res, nil
	}
	for _, e := range cols {
		name := "?column?"
		var ty *Type
		if c, ok := e.(eCol); ok {
			ci, err := t.col(c.name)
			if err != nil {
				return nil, err
			}
			name, ty = c.name, t.Cols[ci].Type
		} else {
			ty = &Type{Kind: kText}
		}
		res.Cols = append(res.Cols, name)
		res.Types = append(res.Types, ty)
	}
	for _, r := range rows {
		out := make([]any, len(cols))
		for i, e := range cols {
			v, err := db.eval(e, t, r, args)
			if err != nil {
				return nil, err
			}
			out[i] = v
			if res.Types[i].Kind == kText {
				if _, isCol := e.(eCol); !isCol {
					res.Types[i] = typeOfValue(v)
				}
			}
		}
		res.Rows = append(res.Rows, out)
	}
	return res, nil
}

func typeOfValue(v any) *Type {
	switch v.(type) {
	case bool:
		return &Type{Kind: kBool}
	case int64:
		return &Type{Kind: kInt8}
	case float64:
		return &Type{Kind: kFloat8}
	}
	return &Type{Kind: kText}
}

func (db *DB) validateAll(t *Table, args []any, es ...expr) *Error {
	for _, e := range es {
		if err := db.validate(e, t, args); err != nil {
			return err
		}
	}
	return nil
}

func (db *DB) execSelect(s selectStmt, args []any) (*Result, *Error) {
	t, err := db.table(s.table)
	if err != nil {
		return nil, err
	}
	if err := db.validateAll(t, args, append(append([]expr{}, s.cols...), s.where)...); err != nil {
		return nil, err
	}
	idx, err := db.filter(t, s.where, args)
	if err != nil {
		return nil, err
	}
	var rows [][]any
	for _, i := range idx {
		rows = append(rows, t.Rows[i])
	}
	if len(s.order) > 0 {
		for _, k := range s.order {
			if err := db.validate(k.e, t, args); err != nil {
				return nil, err
			}
		}
		keys := make([][]any, len(rows))
		for i, r := range rows {
			for _, k := range s.order {
				v, err := db.eval(k.e, t, r, args)
				if err != nil {
					return nil, err
				}
				keys[i] = append(keys[i], v)
			}
		}
		perm := make([]int, len(rows))
		for i := range perm {
			perm[i] = i
		}
		sort.SliceStable(perm, func(a, b int) bool {
			for j, k := range s.order {
				x, y := keys[perm[a]][j], keys[perm[b]][j]
				c := 0
				switch {
				case x == nil && y == nil:
				case x == nil: // NULLs sort as larger than everything
					c = 1
				case y == nil:
					c = -1
				default:
					c, _ = compare(x, y)
				}
				if k.desc {
					c = -c
				}
				if c != 0 {
					return c < 0
				}
			}
			return false
		})
		sorted := make([][]any, len(rows))
		for i, j := range perm {
			sorted[i] = rows[j]
		}
		rows = sorted
	}
	bound := func(e expr, what string) (int, *Error) {
		if e == nil {
			return -1, nil
		}
		v, err := db.eval(e, nil, nil, args)
		if err != nil {
			return 0, err
		}
		n, ok := v.(int64)
		if !ok || n < 0 {
			return 0, errf("type", "%s must be a non-negative integer, got %v", what, v)
		}
		return int(n), nil
	}
	off, err := bound(s.offset, "OFFSET")
	if err != nil {
		return nil, err
	}
	lim, err := bound(s.limit, "LIMIT")
	if err != nil {
		return nil, err
	}
	if off > 0 {
		if off > len(rows) {
			off = len(rows)
		}
		rows = rows[off:]
	}
	if lim >= 0 && lim < len(rows) {
		rows = rows[:lim]
	}
	res, perr := db.project(t, s.cols, s.cols == nil, rows, args)
	if perr != nil || !s.distinct {
		return res, perr
	}
	// SELECT DISTINCT: equal result rows collapse (NULLs count as equal here)
	seen := map[string]bool{}
	var kept [][]any
	for _, r := range res.Rows {
		k := fmt.Sprintf("%#v", r)
		if !seen[k] {
			seen[k] = true
			kept = append(kept, r)
		}
	}
	res.Rows = kept
	return res, nil
}

func (db *DB) defaultFor(t *Table, ci int) (any, *Error) {
	c := t.Cols[ci]
	if c.Serial {
		t.seq++
		return t.seq, nil
	}
	if c.Default != nil {
		v, err := db.eval(c.Default, nil, nil, nil)
		if err != nil {
			return nil, err
		}
		return coerce(v, c.Type)
	}
	return nil, nil
}

func (db *DB) insertRow(t *Table, cols []int, vals []any) ([]any, *Error) {
	row := make([]any, len(t.Cols))
	given := map[int]bool{}
	for k, ci := range cols {
		if given[ci] {
			return nil, errf("constraint", "column %q specified more than once", t.Cols[ci].Name)
		}
		given[ci] = true
		v, err := coerce(vals[k], t.Cols[ci].Type)
		if err != nil {
			err.Msg = "column " + t.Cols[ci].Name + ": " + err.Msg
			return nil, err
		}
		row[ci] = v
	}
	for ci := range t.Cols {
		if !given[ci] {
			v, err := db.defaultFor(t, ci)
			if err != nil {
				return nil, err
			}
			row[ci] = v
		}
	}
	if err := db.checkRow(t, row); err != nil {
		return nil, err
	}
	t.Rows = append(t.Rows, row)
	if err := db.checkUniques(t); err != nil {
		return nil, err
	}
	if err := db.checkOutgoing(t, row); err != nil {
		return nil, err
	}
	return row, nil
}

func sameColSet(a, b []int) bool {
	if len(a) != len(b) {
		return false
	}
	in := map[int]bool{}
	for _, x := range a {
		in[x] = true
	}
	for _, x := range b {
		if !in[x] {
			return false
		}
	}
	return true
}

func (db *DB) execInsert(s insertStmt, args []any) (*Result, *Error) {
	t, err := db.table(s.table)
	if err != nil {
		return nil, err
	}
	var cols []int
	if s.cols == nil {
		for i := range t.Cols {
			cols = append(cols, i)
		}
	} else if cols, err = t.colList(s.cols); err != nil {
		return nil, err
	}
	if s.cols != nil && len(s.cols) == 0 {
		cols = nil // INSERT ... DEFAULT VALUES
	}
	if len(s.values) != len(cols) {
		if len(s.values) > len(cols) {
			return nil, errf("params", "INSERT has more expressions than target columns")
		}
		return nil, errf("params", "INSERT has more target columns than expressions")
	}
	if err := db.validateAll(t, args, s.returning...); err != nil {
		return nil, err
	}
	var vals []any
	var given []int
	for i, e := range s.values {
		if _, isDefault := e.(eDefault); isDefault {
			continue // as if the column were not listed
		}
		if err := db.validate(e, nil, args); err != nil {
			return nil, err
		}
		v, err := db.eval(e, nil, nil, args)
		if err != nil {
			return nil, err
		}
		vals = append(vals, v)
		given = append(given, cols[i])
	}
	cols = given
	if s.onConflictNothing && s.conflictCols != nil {
		// the conflict target must name the columns of one unique constraint
		target, err := t.colList(s.conflictCols)
		if err != nil {
			return nil, err
		}
		found := false
		for _, u := range t.uniques {
			if sameColSet(u.cols, target) {
				found = true
			}
		}
		if !found {
			return nil, errf("constraint", "there is no unique or exclusion constraint matching the ON CONFLICT specification")
		}
	}
	before := len(t.Rows)
	row, err := db.insertRow(t, cols, vals)
	if err != nil && s.onConflictNothing && strings.HasPrefix(err.Msg, "duplicate key value") {
		// the conflicting row is not inserted and the statement succeeds with no row
		t.Rows = t.Rows[:before]
		if s.returning == nil && !s.retStar {
			return &Result{Affected: 0}, nil
		}
		r, err := db.project(t, s.returning, s.retStar, nil, args)
		if r != nil {
			r.Affected = 0
		}
		return r, err
	}
	if err != nil {
		return nil, err
	}
	if s.returning == nil && !s.retStar {
		return &Result{Affected: 1}, nil
	}
	r, err := db.project(t, s.returning, s.retStar, [][]any{row}, args)
	if r != nil {
		r.Affected = 1
	}
	return r, err
}

func (db *DB) execUpdate(s updateStmt, args []any) (*Result, *Error) {
	t, err := db.table(s.table)
	if err != nil {
		return nil, err
	}
	type assign struct {
		col int
		e   expr
	}
	var assigns []assign
	for _, sc := range s.sets {
		cols, err := t.colList(sc.cols)
		if err != nil {
			return nil, err
		}
		if len(cols) != len(sc.exprs) {
			return nil, errf("params", "number of columns does not match number of values")
		}
		for k := range cols {
			if err := db.validate(sc.exprs[k], t, args); err != nil {
				return nil, err
			}
			assigns = append(assigns, assign{cols[k], sc.exprs[k]})
		}
	}
	if err := db.validateAll(t, args, append([]expr{s.where}, s.returning...)...); err != nil {
		return nil, err
	}
	idx, err := db.filter(t, s.where, args)
	if err != nil {
		return nil, err
	}
	var changed [][]any
	for _, i := range idx {
		old := t.Rows[i]
		nw := append([]any(nil), old...)
		for _, a := range assigns {
			v, err := db.eval(a.e, t, old, args)
			if err != nil {
				return nil, err
			}
			cv, err := coerce(v, t.Cols[a.col].Type)
			if err != nil {
				err.Msg = "column " + t.Cols[a.col].Name + ": " + err.Msg
				return nil, err
			}
			nw[a.col] = cv
		}
		if err := db.checkRow(t, nw); err != nil {
			return nil, err
		}
		// keys referenced by other tables must not change while referenced
		if err := db.checkIncomingOnUpdate(t, old, nw); err != nil {
			return nil, err
		}
		t.Rows[i] = nw
		changed = append(changed, nw)
	}
	if err := db.checkUniques(t); err != nil {
		return nil, err
	}
	for _, r := range changed {
		if err := db.checkOutgoing(t, r); err != nil {
			return nil, err
		}
	}
	if s.returning == nil && !s.retStar {
		return &Result{Affected: int64(len(changed))}, nil
	}
	r, err := db.project(t, s.returning, s.retStar, changed, args)
	if r != nil {
		r.Affected = int64(len(changed))
	}
	return r, err
}

func (db *DB) referencing(t *Table) []struct {
	tab *Table
	fk  fkey
} {
	var out []struct {
		tab *Table
		fk  fkey
	}
	for _, n := range db.TableNames() {
		o := db.tables[n]
		for _, fk := range o.fkeys {
			if fk.refTable == t.Name {
				out = append(out, struct {
					tab *Table
					fk  fkey
				}{o, fk})
			}
		}
	}
	return out
}

func (db *DB) checkIncomingOnUpdate(t *Table, old, nw []any) *Error {
	for _, ref := range db.referencing(t) {
		rc, err := t.colList(ref.fk.refCols)
		if err != nil {
			return err
		}
		changed := false
		for _, ci := range rc {
			if keyOf(old[ci]) != keyOf(nw[ci]) {
				changed = true
			}
		}
		if !changed {
			continue
		}
		for _, r := range ref.tab.Rows {
			match := true
			for k, ci := range ref.fk.cols {
				if r[ci] == nil || !equalValues(r[ci], old[rc[k]]) {
					match = false
				}
			}
			if match {
				return errf("constraint", "update on table %q violates foreign key constraint on table %q", t.Name, ref.tab.Name)
			}
		}
	}
	return nil
}

// deleteRows removes rows and applies the referential actions of the
// foreign keys pointing at them: first the closure over ON DELETE CASCADE,
// then SET NULL / SET DEFAULT on surviving referencing rows, and last the
// check for references without action (PostgreSQL runs that check at the end
// of the statement, after the cascades).
func (db *DB) deleteRows(t *Table, victims [][]any, depth int) *Error {
	if len(victims) == 0 {
		return nil
	}
	gone := map[*Table]map[string]bool{}
	goneRows := map[*Table][][]any{}
	var visit func(t *Table, row []any)
	matches := func(ref *Table, fk fkey, r []any, t *Table, v []any) (bool, *Error) {
		rc, err := t.colList(fk.refCols)
		if err != nil {
			return false, err
		}
		for k, ci := range fk.cols {
			if r[ci] == nil || v[rc[k]] == nil || !equalValues(r[ci], v[rc[k]]) {
				return false, nil
			}
		}
		return true, nil
	}
	var verr *Error
	visit = func(t *Table, row []any) {
		id := rowIdentity(row)
		if gone[t] == nil {
			gone[t] = map[string]bool{}
		}
		if gone[t][id] || verr != nil {
			return
		}
		gone[t][id] = true
		goneRows[t] = append(goneRows[t], row)
		for _, ref := range db.referencing(t) {
			if ref.fk.onDelete != "CASCADE" {
				continue
			}
			for _, r := range ref.tab.Rows {
				ok, err := matches(ref.tab, ref.fk, r, t, row)
				if err != nil {
					verr = err
					return
				}
				if ok {
					visit(ref.tab, r)
				}
			}
		}
	}
	for _, v := range victims {
		visit(t, v)
	}
	if verr != nil {
		return verr
	}
	// surviving rows that reference a deleted row
	for _, tn := range db.TableNames() { // fixed order: the first error found must not depend on map order
		tt := db.tables[tn]
		rows := goneRows[tt]
		if len(rows) == 0 {
			continue
		}
		for _, ref := range db.referencing(tt) {
			if ref.fk.onDelete == "CASCADE" {
				continue
			}
			for _, r := range ref.tab.Rows {
				if gone[ref.tab] != nil && gone[ref.tab][rowIdentity(r)] {
					continue
				}
				for _, v := range rows {
					ok, err := matches(ref.tab, ref.fk, r, tt, v)
					if err != nil {
						return err
					}
					if !ok {
						continue
					}
					switch ref.fk.onDelete {
					case "SET NULL":
						for _, ci := range ref.fk.cols {
							r[ci] = nil
						}
						if err := db.checkRow(ref.tab, r); err != nil {
							return err
						}
					case "SET DEFAULT":
						for _, ci := range ref.fk.cols {
							d, err := db.defaultFor(ref.tab, ci)
							if err != nil {
								return err
							}
							r[ci] = d
						}
					default:
						return errf("constraint", "update or delete on table %q violates foreign key constraint on table %q", tt.Name, ref.tab.Name)
					}
					break
				}
			}
		}
	}
	for tt, ids := range gone {
		var keep [][]any
		for _, r := range tt.Rows {
			if !ids[rowIdentity(r)] {
				keep = append(keep, r)
			}
		}
		tt.Rows = keep
	}
	return nil
}

// rowIdentity distinguishes row slices by address of their first element.
func rowIdentity(r []any) string {
	if len(r) == 0 {
		return ""
	}
	return ptrString(&r[0])
}

func (db *DB) execDelete(s deleteStmt, args []any) (*Result, *Error) {
	t, err := db.table(s.table)
	if err != nil {
		return nil, err
	}
	if err := db.validateAll(t, args, append([]expr{s.where}, s.returning...)...); err != nil {
		return nil, err
	}
	idx, err := db.filter(t, s.where, args)
	if err != nil {
		return nil, err
	}
	var victims [][]any
	for _, i := range idx {
		victims = append(victims, t.Rows[i])
	}
	// RETURNING sees the rows as they were
	var copies [][]any
	for _, v := range victims {
		copies = append(copies, append([]any(nil), v...))
	}
	if err := db.deleteRows(t, victims, 0); err != nil {
		return nil, err
	}
	if s.returning == nil && !s.retStar {
		return &Result{Affected: int64(len(victims))}, nil
	}
	r, err := db.project(t, s.returning, s.retStar, copies, args)
	if r != nil {
		r.Affected = int64(len(victims))
	}
	return r, err
}

// CopyRows inserts the buffered rows of a COPY ... FROM STDIN.
func (db *DB) CopyRows(table string, colNames []string, rows [][]any) *Error {
	t, err := db.table(table)
	if err != nil {
		return err
	}
	var cols []int
	if colNames == nil {
		for i := range t.Cols {
			cols = append(cols, i)
		}
	} else if cols, err = t.colList(colNames); err != nil {
		return err
	}
	snap := db.snapshot()
	for _, r := range rows {
		if len(r) != len(cols) {
			db.restore(snap)
			return errf("params", "COPY row has %d values for %d columns", len(r), len(cols))
		}
		if _, err := db.insertRow(t, cols, r); err != nil {
			db.restore(snap)
			return err
		}
	}
	return nil
}

// CheckCopy validates the target of a COPY statement at prepare time.
func (db *DB) CheckCopy(table string, colNames []string) *Error {
	t, err := db.table(table)
	if err != nil {
		return err
	}
	if colNames != nil {
		if _, err := t.colList(colNames); err != nil {
			return err
		}
	}
	return nil
}
