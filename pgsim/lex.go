// Package pgsim is a small simulated PostgreSQL: enough DDL to load the
// schema gomacro's SQL generator emits, enough DML to run the statements its
// CRUD generator emits, a database/sql driver and a fault plane. It follows
// PostgreSQL's documented behaviour where the generated text depends on it
// (identifier folding, serial, defaults, NOT NULL, CHECK, UNIQUE, PRIMARY KEY,
// FOREIGN KEY with ON DELETE actions, value typing and canonical output text)
// and is lenient where unsure, so that doubt produces a miss and not an alarm.
package pgsim

import (
	"fmt"
	"strings"
)

type tokKind int

const (
	tEOF    tokKind = iota
	tIdent          // unquoted identifier or keyword, folded to lower case in .lower
	tQIdent         // "quoted identifier"
	tString         // 'string literal'
	tNumber
	tParam  // $n
	tSymbol // punctuation / operator
	tDollar // $$ ... $$ body
)

type token struct {
	kind  tokKind
	text  string // exact text (string literals: unescaped content)
	lower string
	pos   int
}

// Error is an SQL error raised by the simulator.
type Error struct {
	// Class: syntax (the simulator cannot parse: harness limit or broken
	// statement), invalid (text that is certainly not valid PostgreSQL:
	// unterminated literals, empty column or VALUES lists, a single-column
	// parenthesised SET without ROW), undefined (unknown table / column / type / function),
	// params (placeholder numbering / arity), type (value does not fit the
	// column type), constraint (NOT NULL / CHECK / UNIQUE / FOREIGN KEY),
	// fault (injected), state
	Class string
	Msg   string
	Stmt  string
}

func (e *Error) Error() string {
	s := e.Stmt
	if len(s) > 200 {
		s = s[:200] + "..."
	}
	return fmt.Sprintf("pgsim %s error: %s [statement: %s]", e.Class, e.Msg, strings.Join(strings.Fields(s), " "))
}

func errf(class, format string, a ...any) *Error {
	return &Error{Class: class, Msg: fmt.Sprintf(format, a...)}
}

func clipWord(s string) string {
	j := 0
	for j < len(s) && j < 20 && isIdentPart(s[j]) {
		j++
	}
	return s[:j]
}

// foldIdent folds an unquoted identifier the way PostgreSQL does in a UTF-8
// database (scansup.c, downcase_identifier): ASCII letters only; non-ASCII
// letters keep their case, so that Élan and élan are two different names.
func foldIdent(s string) string {
	b := []byte(s)
	for i, c := range b {
		if c >= 'A' && c <= 'Z' {
			b[i] = c + 'a' - 'A'
		}
	}
	return string(b)
}

func isIdentStart(c byte) bool {
	return c == '_' || (c >= 'a' && c <= 'z') || (c >= 'A' && c <= 'Z') || c >= 0x80
}

func isIdentPart(c byte) bool {
	return isIdentStart(c) || (c >= '0' && c <= '9') || c == '$'
}

func lex(src string) ([]token, *Error) {
	var toks []token
	i := 0
	n := len(src)
	for i < n {
		c := src[i]
		switch {
		case c == ' ' || c == '\t' || c == '\n' || c == '\r':
			i++
		case c == '-' && i+1 < n && src[i+1] == '-':
			for i < n && src[i] != '\n' {
				i++
			}
		case c == '/' && i+1 < n && src[i+1] == '*':
			j := strings.Index(src[i+2:], "*/")
			if j < 0 {
				return nil, errf("invalid", "unterminated /* comment")
			}
			i += j + 4
		case isIdentStart(c):
			j := i
			for j < n && isIdentPart(src[j]) {
				j++
			}
			toks = append(toks, token{kind: tIdent, text: src[i:j], lower: foldIdent(src[i:j]), pos: i})
			i = j
		case c >= '0' && c <= '9':
			j := i
			for j < n && (src[j] >= '0' && src[j] <= '9' || src[j] == '.' || src[j] == 'e' || src[j] == 'E') {
				j++
			}
			toks = append(toks, token{kind: tNumber, text: src[i:j], pos: i})
			i = j
		case c == '"':
			j := i + 1
			var b strings.Builder
			for {
				if j >= n {
					return nil, errf("invalid", "unterminated quoted identifier")
				}
				if src[j] == '"' {
					if j+1 < n && src[j+1] == '"' {
						b.WriteByte('"')
						j += 2
						continue
					}
					break
				}
				b.WriteByte(src[j])
				j++
			}
			toks = append(toks, token{kind: tQIdent, text: b.String(), lower: b.String(), pos: i})
			i = j + 1
		case c == '\'':
			j := i + 1
			var b strings.Builder
			for {
				if j >= n {
					return nil, errf("invalid", "unterminated quoted string")
				}
				if src[j] == '\'' {
					if j+1 < n && src[j+1] == '\'' {
						b.WriteByte('\'')
						j += 2
						continue
					}
					break
				}
				b.WriteByte(src[j])
				j++
			}
			toks = append(toks, token{kind: tString, text: b.String(), pos: i})
			i = j + 1
			if i < n && isIdentStart(src[i]) {
				// 'de'luxe: a literal running straight into a word is never valid
				// SQL - the sign of a quote that was not doubled
				return nil, errf("invalid", "syntax error at or near %q: a string literal is directly followed by a word (unescaped quote?)", clipWord(src[i:]))
			}
		case c == '$':
			if i+1 < n && src[i+1] >= '0' && src[i+1] <= '9' {
				j := i + 1
				for j < n && src[j] >= '0' && src[j] <= '9' {
					j++
				}
				toks = append(toks, token{kind: tParam, text: src[i+1 : j], pos: i})
				i = j
				continue
			}
			// dollar quoting: $tag$ ... $tag$
			j := i + 1
			for j < n && src[j] != '$' && isIdentPart(src[j]) {
				j++
			}
			if j < n && src[j] == '$' {
				tag := src[i : j+1]
				end := strings.Index(src[j+1:], tag)
				if end < 0 {
					return nil, errf("invalid", "unterminated dollar-quoted string")
				}
				toks = append(toks, token{kind: tDollar, text: src[j+1 : j+1+end], pos: i})
				i = j + 1 + end + len(tag)
				continue
			}
			return nil, errf("syntax", "unexpected '$' at offset %d", i)
		default:
			// multi-character operators
			for _, op := range []string{"<>", "!=", "<=", ">=", "::", "||"} {
				if strings.HasPrefix(src[i:], op) {
					toks = append(toks, token{kind: tSymbol, text: op, pos: i})
					i += len(op)
					goto next
				}
			}
			toks = append(toks, token{kind: tSymbol, text: string(c), pos: i})
			i++
		next:
		}
	}
	toks = append(toks, token{kind: tEOF, pos: n})
	return toks, nil
}

// splitStatements cuts a script at top-level semicolons (respecting strings,
// comments and dollar quoting) and returns the non-empty statements.
func splitStatements(src string) ([]string, *Error) {
	toks, err := lex(src)
	if err != nil {
		return nil, err
	}
	var out []string
	start := 0
	for _, t := range toks {
		if t.kind == tSymbol && t.text == ";" {
			s := strings.TrimSpace(src[start:t.pos])
			if stripComments(s) != "" {
				out = append(out, s)
			}
			start = t.pos + 1
		}
	}
	if s := strings.TrimSpace(src[start:]); stripComments(s) != "" {
		out = append(out, s)
	}
	return out, nil
}

func stripComments(s string) string {
	toks, err := lex(s)
	if err != nil {
		return s
	}
	if len(toks) == 1 {
		return ""
	}
	return s
}
